//! Value alphabets (DESIGN §3.2).
use ark_ff::PrimeField;
use sha3::{Digest, Sha3_256};

/// A full-width field element derived from (seed, tag) by hashing.
pub fn rho<F: PrimeField>(seed: u64, tag: &str) -> F {
    let mut h = Sha3_256::new();
    h.update(b"bpverif-rho");
    h.update(seed.to_le_bytes());
    h.update(tag.as_bytes());
    let a = h.finalize();
    let mut h2 = Sha3_256::new();
    h2.update(b"bpverif-rho2");
    h2.update(&a);
    let b = h2.finalize();
    let mut bytes = Vec::with_capacity(64);
    bytes.extend_from_slice(&a);
    bytes.extend_from_slice(&b);
    let f = F::from_le_bytes_mod_order(&bytes);
    if f.is_zero() || f.is_one() {
        F::from(0x1234_5678_9abc_def1u64)
    } else {
        f
    }
}

/// VAL = {0, 1, -1, 2, 2^64+1, (p-1)/2, p-2, rho}
pub fn val<F: PrimeField>(seed: u64) -> Vec<F> {
    let two64p1 = F::from(u64::MAX) + F::from(2u64);
    let half = (-F::one()) / F::from(2u64);
    vec![
        F::zero(),
        F::one(),
        -F::one(),
        F::from(2u64),
        two64p1,
        half,
        -F::from(2u64),
        rho::<F>(seed, "val"),
    ]
}
pub const VAL_NAMES: [&str; 8] = ["0", "1", "-1", "2", "2^64+1", "(p-1)/2", "p-2", "rho"];

pub fn val3<F: PrimeField>(seed: u64) -> Vec<F> {
    vec![F::zero(), F::one(), rho::<F>(seed, "val")]
}
pub fn val5<F: PrimeField>(seed: u64) -> Vec<F> {
    let two64p1 = F::from(u64::MAX) + F::from(2u64);
    vec![F::zero(), F::one(), -F::one(), two64p1, rho::<F>(seed, "val")]
}
/// Non-zero deviations Δ = {1, -1, rho}
pub fn deltas<F: PrimeField>(seed: u64) -> Vec<F> {
    vec![F::one(), -F::one(), rho::<F>(seed, "delta")]
}
pub const DELTA_NAMES: [&str; 3] = ["1", "-1", "rho"];

pub fn seed_bytes(seed: u64, tag: &str) -> [u8; 32] {
    let mut h = Sha3_256::new();
    h.update(b"bpverif-seed");
    h.update(seed.to_le_bytes());
    h.update(tag.as_bytes());
    let a = h.finalize();
    let mut out = [0u8; 32];
    out.copy_from_slice(&a);
    out
}
pub fn chacha(seed: u64, tag: &str) -> rand_chacha::ChaChaRng {
    use rand_core::SeedableRng;
    rand_chacha::ChaChaRng::from_seed(seed_bytes(seed, tag))
}
