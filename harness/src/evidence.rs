//! Evidence JSON, VIOLATION / KNOWN-FINDING lines, replay files, known findings.
use serde_json::{json, Value};
use std::collections::BTreeMap;
use std::path::PathBuf;
use std::sync::Mutex;
use std::time::Instant;

pub fn verif_root() -> PathBuf {
    std::env::var("VERIF_ROOT").map(PathBuf::from).unwrap_or_else(|_| PathBuf::from("/verif"))
}

#[derive(Clone, Debug)]
pub struct Violation {
    /// key compared with known_findings.json `match`
    pub key: Value,
    /// full replayable case description
    pub case: Value,
    pub expected: String,
    pub observed: String,
    pub note: String,
}

pub struct Report {
    pub property: String,
    pub tier: String,
    pub seed: u64,
    pub level: String,
    pub start: Instant,
    pub evaluations: u64,
    pub nontrivial: u64,
    pub rule: String,
    pub explanation: String,
    pub exhaustive: bool,
    pub samples: Vec<Value>,
    pub histogram: BTreeMap<String, u64>,
    pub bounds: Value,
    pub caps_hit: Vec<String>,
    pub curves: Vec<String>,
    pub extra: BTreeMap<String, Value>,
    pub assumptions: Vec<String>,
    pub violations: Vec<Violation>,
    pub states: Option<u64>,
    pub transitions: Option<u64>,
    pub traces_validated: Option<u64>,
}

impl Report {
    pub fn new(property: &str, tier: &str, seed: u64, level: &str) -> Self {
        Report {
            property: property.into(),
            tier: tier.into(),
            seed,
            level: level.into(),
            start: Instant::now(),
            evaluations: 0,
            nontrivial: 0,
            rule: String::new(),
            explanation: String::new(),
            exhaustive: false,
            samples: vec![],
            histogram: BTreeMap::new(),
            bounds: json!({}),
            caps_hit: vec![],
            curves: vec![],
            extra: BTreeMap::new(),
            assumptions: vec![],
            violations: vec![],
            states: None,
            transitions: None,
            traces_validated: None,
        }
    }
    pub fn count(&mut self, bucket: &str, n: u64) {
        *self.histogram.entry(bucket.to_string()).or_insert(0) += n;
    }
    pub fn sample(&mut self, v: Value) {
        if self.samples.len() < 12 {
            self.samples.push(v);
        }
    }
    pub fn violation(&mut self, v: Violation) {
        self.violations.push(v);
    }

    /// Writes evidence, prints VIOLATION / KNOWN-FINDING lines, returns the exit code.
    pub fn finish(mut self) -> i32 {
        let root = verif_root();
        let known = load_known(&self.property);
        let mut unlisted = vec![];
        let mut known_hits: BTreeMap<String, (String, u64)> = BTreeMap::new();
        for v in self.violations.drain(..) {
            match known.iter().find(|k| k.0 == v.key) {
                Some(k) => {
                    let e = known_hits.entry(k.0.to_string()).or_insert((k.1.clone(), 0));
                    e.1 += 1;
                }
                None => unlisted.push(v),
            }
        }
        for (k, (what, n)) in &known_hits {
            println!("KNOWN-FINDING: property={} {} (match {} ; {} case(s) this run)", self.property, what, k, n);
        }
        let dir = root.join("replays").join(&self.property);
        let mut printed = 0;
        if !unlisted.is_empty() {
            let _ = std::fs::create_dir_all(&dir);
        }
        for (i, v) in unlisted.iter().enumerate() {
            if i >= 25 {
                break;
            }
            let path = dir.join(format!("{}.json", i));
            let body = json!({
                "property": self.property,
                "tier": self.tier,
                "seed": self.seed,
                "key": v.key,
                "case": v.case,
                "expected": v.expected,
                "observed": v.observed,
                "note": v.note,
            });
            let _ = std::fs::write(&path, serde_json::to_string_pretty(&body).unwrap());
            println!("VIOLATION property={} replay={}", self.property, path.display());
            println!("  expected: {} ; observed: {} ; {}", v.expected, v.observed, v.note);
            printed += 1;
        }
        if unlisted.len() > printed {
            println!("  ... and {} more violations (not written)", unlisted.len() - printed);
        }
        let wall = self.start.elapsed().as_secs_f64();
        if self.histogram.len() <= 1 && self.explanation.is_empty() {
            self.explanation = "outcome histogram has a single bucket: possibly vacuous".into();
        }
        let mut cov = serde_json::Map::new();
        cov.insert("evaluations".into(), json!(self.evaluations));
        cov.insert("distinct_nontrivial".into(), json!(self.nontrivial));
        cov.insert("rule".into(), json!(self.rule));
        cov.insert("samples".into(), json!(self.samples));
        cov.insert("explanation".into(), json!(self.explanation));
        cov.insert("exhaustive".into(), json!(self.exhaustive && self.caps_hit.is_empty()));
        cov.insert("bounds".into(), self.bounds.clone());
        cov.insert("caps_hit".into(), json!(self.caps_hit));
        cov.insert("curves".into(), json!(self.curves));
        cov.insert("outcome_histogram".into(), json!(self.histogram));
        cov.insert("known_findings_matched".into(), json!(known_hits.values().map(|v| v.1).sum::<u64>()));
        if let Some(s) = self.states {
            cov.insert("states".into(), json!(s));
        }
        if let Some(s) = self.transitions {
            cov.insert("transitions".into(), json!(s));
        }
        if let Some(s) = self.traces_validated {
            cov.insert("traces_validated_against_impl".into(), json!(s));
        }
        for (k, v) in &self.extra {
            cov.insert(k.clone(), v.clone());
        }
        let ev = json!({
            "property_id": self.property,
            "tier": self.tier,
            "seed": self.seed,
            "level": self.level,
            "coverage": Value::Object(cov),
            "assumptions": self.assumptions,
            "wall_s": wall,
            "violations": unlisted.len(),
        });
        // a replay re-executes one recorded case: it is not a coverage run and leaves the evidence alone
        if std::env::var("BPV_REPLAY").is_err() {
            let edir = root.join("evidence");
            let _ = std::fs::create_dir_all(&edir);
            let epath = edir.join(format!("{}.json", self.property));
            std::fs::write(&epath, serde_json::to_string_pretty(&ev).unwrap()).expect("write evidence");
        }
        println!(
            "{} tier={} evaluations={} nontrivial={} violations={} known={} wall={:.1}s histogram={:?}",
            self.property,
            self.tier,
            self.evaluations,
            self.nontrivial,
            unlisted.len(),
            known_hits.len(),
            wall,
            self.histogram
        );
        if unlisted.is_empty() {
            0
        } else {
            1
        }
    }
}

/// (match key, what) of `known` entries for a property. `fixed` entries match nothing.
fn load_known(property: &str) -> Vec<(Value, String)> {
    let p = verif_root().join("known_findings.json");
    let Ok(s) = std::fs::read_to_string(&p) else { return vec![] };
    let Ok(v) = serde_json::from_str::<Value>(&s) else {
        eprintln!("machinery: known_findings.json is not valid JSON");
        std::process::exit(2);
    };
    let mut out = vec![];
    if let Some(a) = v.get("findings").and_then(|x| x.as_array()) {
        for f in a {
            if f.get("status").and_then(|x| x.as_str()) == Some("known")
                && f.get("property").and_then(|x| x.as_str()) == Some(property)
            {
                out.push((
                    f.get("match").cloned().unwrap_or(Value::Null),
                    f.get("what").and_then(|x| x.as_str()).unwrap_or("").to_string(),
                ));
            }
        }
    }
    out
}

// ---------------------------------------------------------------------------------------------
// Panic capture

thread_local! {
    static LAST_PANIC: std::cell::RefCell<Option<String>> = std::cell::RefCell::new(None);
}
static HOOK: Mutex<bool> = Mutex::new(false);

pub fn install_quiet_panic_hook() {
    let mut g = HOOK.lock().unwrap();
    if *g {
        return;
    }
    *g = true;
    std::panic::set_hook(Box::new(|info| {
        let loc = info.location().map(|l| format!("{}:{}", l.file(), l.line())).unwrap_or_default();
        let msg = if let Some(s) = info.payload().downcast_ref::<&str>() {
            s.to_string()
        } else if let Some(s) = info.payload().downcast_ref::<String>() {
            s.clone()
        } else {
            "panic".to_string()
        };
        LAST_PANIC.with(|p| *p.borrow_mut() = Some(format!("{} at {}", msg, loc)));
    }));
}

/// Run `f`, catching an unwind; Err carries "message at file:line".
pub fn guarded<T>(f: impl FnOnce() -> T) -> Result<T, String> {
    match std::panic::catch_unwind(std::panic::AssertUnwindSafe(f)) {
        Ok(v) => Ok(v),
        Err(_) => Err(LAST_PANIC.with(|p| p.borrow_mut().take()).unwrap_or_else(|| "panic".into())),
    }
}
