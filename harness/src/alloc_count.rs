//! Counting global allocator (installed by the `bpv` binary): current and peak live bytes.
use std::alloc::{GlobalAlloc, Layout, System};
use std::sync::atomic::{AtomicUsize, Ordering};

pub struct Counting;
static CUR: AtomicUsize = AtomicUsize::new(0);
static PEAK: AtomicUsize = AtomicUsize::new(0);

unsafe impl GlobalAlloc for Counting {
    unsafe fn alloc(&self, l: Layout) -> *mut u8 {
        let p = System.alloc(l);
        if !p.is_null() {
            let c = CUR.fetch_add(l.size(), Ordering::Relaxed) + l.size();
            PEAK.fetch_max(c, Ordering::Relaxed);
        }
        p
    }
    unsafe fn dealloc(&self, p: *mut u8, l: Layout) {
        CUR.fetch_sub(l.size(), Ordering::Relaxed);
        System.dealloc(p, l)
    }
    unsafe fn realloc(&self, p: *mut u8, l: Layout, new: usize) -> *mut u8 {
        let q = System.realloc(p, l, new);
        if !q.is_null() {
            if new >= l.size() {
                let c = CUR.fetch_add(new - l.size(), Ordering::Relaxed) + (new - l.size());
                PEAK.fetch_max(c, Ordering::Relaxed);
            } else {
                CUR.fetch_sub(l.size() - new, Ordering::Relaxed);
            }
        }
        q
    }
}

/// Reset the peak to the current level and return the current level.
pub fn reset_peak() -> usize {
    let c = CUR.load(Ordering::Relaxed);
    PEAK.store(c, Ordering::Relaxed);
    c
}
/// Peak live bytes since the last reset, relative to `base`.
pub fn peak_since(base: usize) -> usize {
    PEAK.load(Ordering::Relaxed).saturating_sub(base)
}
