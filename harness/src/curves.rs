//! The three curve instantiations ("configurations" axis) behind one trait.
use ark_ec::{AffineRepr, CurveGroup};
use ark_ff::{BigInteger, PrimeField};
use ark_serialize::CanonicalSerialize;

pub type Secq = ark_secq256k1::Affine;
pub type Zorro = ark_bulletproofs::curve::zorro::G1Affine;
pub type C25519 = ark_curve25519::EdwardsAffine;

pub const CURVES: [&str; 3] = ["secq256k1", "zorro", "curve25519"];

pub trait Cv: AffineRepr + 'static {
    const NAME: &'static str;
    /// A point of order exactly 8 when the curve has cofactor 8.
    fn torsion8() -> Option<Self>;
    /// Compressed encodings (point_len bytes) that are on the curve but outside the
    /// prime-order subgroup, if the curve has any.
    fn small_order_points() -> Vec<Self>;
}

impl Cv for Secq {
    const NAME: &'static str = "secq256k1";
    fn torsion8() -> Option<Self> {
        None
    }
    fn small_order_points() -> Vec<Self> {
        vec![]
    }
}
impl Cv for Zorro {
    const NAME: &'static str = "zorro";
    fn torsion8() -> Option<Self> {
        None
    }
    fn small_order_points() -> Vec<Self> {
        vec![]
    }
}
impl Cv for C25519 {
    const NAME: &'static str = "curve25519";
    fn torsion8() -> Option<Self> {
        use ark_curve25519::{Fq, Fr};
        // walk y = 2, 3, ... ; [r]P is the torsion component of P
        let r = <Fr as PrimeField>::MODULUS;
        let mut y = Fq::from(2u64);
        loop {
            if let Some(p) = C25519::get_point_from_y_unchecked(y, false) {
                let t = p.mul_bigint(r).into_affine();
                let t4 = t.mul_bigint([4u64]).into_affine();
                if !t4.is_zero() {
                    // order exactly 8
                    debug_assert!(t.mul_bigint([8u64]).into_affine().is_zero());
                    return Some(t);
                }
            }
            y += Fq::from(1u64);
        }
    }
    fn small_order_points() -> Vec<Self> {
        let t = Self::torsion8().unwrap();
        (1..8u64).map(|k| t.mul_bigint([k]).into_affine()).collect()
    }
}

/// Dispatch on a curve name: `with_curve!(name, G => expr)`.
#[macro_export]
macro_rules! with_curve {
    ($name:expr, $G:ident => $body:expr) => {
        match $name {
            "secq256k1" => {
                type $G = $crate::curves::Secq;
                $body
            }
            "zorro" => {
                type $G = $crate::curves::Zorro;
                $body
            }
            "curve25519" => {
                type $G = $crate::curves::C25519;
                $body
            }
            other => panic!("unknown curve {}", other),
        }
    };
}

pub fn point_len<G: AffineRepr>() -> usize {
    G::generator().compressed_size()
}
pub fn scalar_len<G: AffineRepr>() -> usize {
    use ark_ff::Zero;
    G::ScalarField::zero().compressed_size()
}
pub fn pt_bytes<G: AffineRepr>(p: &G) -> Vec<u8> {
    let mut v = Vec::new();
    p.serialize_compressed(&mut v).unwrap();
    v
}
pub fn pt_bytes_unc<G: AffineRepr>(p: &G) -> Vec<u8> {
    let mut v = Vec::new();
    p.serialize_uncompressed(&mut v).unwrap();
    v
}
pub fn sc_bytes<F: PrimeField>(s: &F) -> Vec<u8> {
    let mut v = Vec::new();
    s.serialize_compressed(&mut v).unwrap();
    v
}
pub fn sc_str<F: PrimeField>(s: &F) -> String {
    // short decimal/hex rendering for replay files
    let b = s.into_bigint().to_bytes_be();
    let h = hex::encode(b);
    let t = h.trim_start_matches('0');
    if t.is_empty() {
        "0".to_string()
    } else {
        format!("0x{}", t)
    }
}
/// Reference scalar multiplication: plain double-and-add written here (not `mul_bigint`).
pub fn ref_mul<G: AffineRepr>(p: &G, s: &G::ScalarField) -> G::Group {
    use ark_ff::Zero;
    let bits = s.into_bigint().to_bits_be();
    let mut acc = G::Group::zero();
    for b in bits {
        acc = acc + acc;
        if b {
            acc = acc + p;
        }
    }
    acc
}
