//! Reading and assembling proofs.
//!
//! The fields are taken *by name* through hook H3 (`R1CSProof::verif_fields` /
//! `verif_from_fields`) and bytes are produced and consumed by the crate's own encoder and decoder,
//! so that a tree whose derived serialization lays the fields out in another order (C18's
//! business, and only C18's) does not confuse the checks that reason about A_I2, T_3, ... by
//! name. The positional reader/writer of the reference layout
//! `11 points | 3 scalars | u64 count, L.. | u64 count, R.. | a | b` (all compressed) remains as the
//! fallback for byte strings the crate's decoder refuses, and for the checks that do byte surgery.
use crate::curves::{point_len, pt_bytes, sc_bytes, scalar_len};
use ark_bulletproofs::r1cs::R1CSProof;
use ark_ec::AffineRepr;
use ark_serialize::CanonicalDeserialize;

pub const POINT_NAMES: [&str; 11] = ["A_I1", "A_O1", "S1", "A_I2", "A_O2", "S2", "T_1", "T_3", "T_4", "T_5", "T_6"];
pub const SCALAR_NAMES: [&str; 3] = ["t_x", "t_x_blinding", "e_blinding"];

#[derive(Clone, Debug, PartialEq)]
pub struct Parts<G: AffineRepr> {
    pub pts: Vec<G>,
    pub sc: Vec<G::ScalarField>,
    pub l: Vec<G>,
    pub r: Vec<G>,
    pub a: G::ScalarField,
    pub b: G::ScalarField,
}

impl<G: AffineRepr> Parts<G> {
    /// Parse the encoding with unchecked point decoding of each slot (the harness wants to see
    /// what is there, not to validate it).
    pub fn parse(bytes: &[u8]) -> Option<Self> {
        if let Ok(Ok(obj)) = crate::evidence::guarded(|| R1CSProof::<G>::from_bytes(bytes)) {
            return Some(Self::from_proof(&obj));
        }
        Self::parse_positional(bytes)
    }
    /// The proof object's fields by name (hook H3).
    pub fn from_proof(p: &R1CSProof<G>) -> Self {
        let (pts, sc, l, r, a, b) = p.verif_fields();
        Parts { pts: pts.to_vec(), sc: sc.to_vec(), l, r, a, b }
    }
    /// In-memory proof object with exactly these fields (hook H3); no validation.
    fn object(&self) -> Option<R1CSProof<G>> {
        let pts: [G; 11] = self.pts.clone().try_into().ok()?;
        let sc: [G::ScalarField; 3] = self.sc.clone().try_into().ok()?;
        Some(R1CSProof::<G>::verif_from_fields(pts, sc, self.l.clone(), self.r.clone(), self.a, self.b))
    }
    /// Reference layout, slot by slot.
    pub fn parse_positional(bytes: &[u8]) -> Option<Self> {
        let pl = point_len::<G>();
        let sl = scalar_len::<G>();
        let mut off = 0usize;
        let take = |off: &mut usize, n: usize| -> Option<&[u8]> {
            if *off + n > bytes.len() {
                return None;
            }
            let s = &bytes[*off..*off + n];
            *off += n;
            Some(s)
        };
        let pt = |b: &[u8]| G::deserialize_compressed(b).ok();
        let sc = |b: &[u8]| G::ScalarField::deserialize_compressed(b).ok();
        let mut pts = vec![];
        for _ in 0..11 {
            pts.push(pt(take(&mut off, pl)?)?);
        }
        let mut scs = vec![];
        for _ in 0..3 {
            scs.push(sc(take(&mut off, sl)?)?);
        }
        let mut vecs = vec![];
        for _ in 0..2 {
            let cnt = u64::from_le_bytes(take(&mut off, 8)?.try_into().ok()?);
            if cnt > 4096 {
                return None;
            }
            let mut v = vec![];
            for _ in 0..cnt {
                v.push(pt(take(&mut off, pl)?)?);
            }
            vecs.push(v);
        }
        let a = sc(take(&mut off, sl)?)?;
        let b = sc(take(&mut off, sl)?)?;
        let r = vecs.pop().unwrap();
        let l = vecs.pop().unwrap();
        Some(Parts { pts, sc: scs, l, r, a, b })
    }
    /// The crate's own encoding of an object with these fields.
    pub fn to_bytes(&self) -> Vec<u8> {
        if let Some(obj) = self.object() {
            if let Ok(Ok(b)) = crate::evidence::guarded(|| obj.to_bytes()) {
                return b;
            }
        }
        self.to_bytes_positional()
    }
    pub fn to_bytes_positional(&self) -> Vec<u8> {
        let mut out = vec![];
        for p in &self.pts {
            out.extend(pt_bytes(p));
        }
        for s in &self.sc {
            out.extend(sc_bytes(s));
        }
        out.extend((self.l.len() as u64).to_le_bytes());
        for p in &self.l {
            out.extend(pt_bytes(p));
        }
        out.extend((self.r.len() as u64).to_le_bytes());
        for p in &self.r {
            out.extend(pt_bytes(p));
        }
        out.extend(sc_bytes(&self.a));
        out.extend(sc_bytes(&self.b));
        out
    }
    pub fn to_proof(&self) -> Result<R1CSProof<G>, String> {
        R1CSProof::<G>::from_bytes(&self.to_bytes()).map_err(|e| format!("{:?}", e))
    }
    /// byte offset of the named slot
    pub fn offset_of_point(i: usize) -> usize {
        i * point_len::<G>()
    }
    pub fn offset_of_scalar(i: usize) -> usize {
        11 * point_len::<G>() + i * scalar_len::<G>()
    }
    pub fn offset_l_count() -> usize {
        11 * point_len::<G>() + 3 * scalar_len::<G>()
    }
    pub fn offset_r_count(k_l: usize) -> usize {
        Self::offset_l_count() + 8 + k_l * point_len::<G>()
    }
    pub fn expected_len(k: usize) -> usize {
        11 * point_len::<G>() + 5 * scalar_len::<G>() + 16 + 2 * k * point_len::<G>()
    }
}
