//! Non-initial states: an alphabet of *earlier library calls on the same thread* that a check can
//! put in front of its subject. The library has no documented global state, so every property must
//! hold after any such history exactly as it holds in a fresh process; a scratch buffer, cache or
//! lazily built table that survives an error path makes the subject depend on what ran before it.
//! The events deliberately end on the error paths (identity points, wrong lengths, too few
//! generators, undecodable bytes, failing batches) because that is where clean-up is forgotten.
use crate::curves::Cv;
use crate::devspace::{self, PDev, Slot};
use crate::evidence::guarded;
use crate::program::{self, build_verifier, Dev, Env, Program};
use crate::proofparts::Parts;
use ark_bulletproofs::r1cs::{batch_verify, R1CSProof};
use ark_bulletproofs::BulletproofGens;
use ark_ff::One;
use merlin::Transcript;

#[derive(Clone, Debug, PartialEq, Eq, Hash)]
pub enum Prior {
    /// verify a proof whose point slot (0..11 fixed points, 11 = L[0], 12 = R[0]) is the identity
    IdPoint(usize),
    /// verify a proof with t_x + 1 (fails at the very end)
    TxShift,
    /// prove with a bad witness, verify the result
    BadWitness,
    /// prove / verify with fewer generators than the padded size
    ProveFewGens,
    VerifyFewGens,
    /// decode a truncated encoding / an encoding with an invalid point / a non-canonical scalar
    DecodeTruncated,
    DecodeBadPoint,
    DecodeBadScalar,
    /// a proof with one round dropped (wrong L/R length)
    DropRound,
    /// batch of a valid and an invalid instance
    BatchMixed,
    /// a verifier that commits the identity
    IdentityCommitment,
    /// verification under another transcript label
    WrongLabel,
    /// an honest run of another program (other size, other phase structure)
    HonestOther,
    /// an honest run of a commitment-free program with the given number of gates (so that every
    /// subject is preceded by a run of its own padded size under different challenges)
    HonestSize(usize),
    /// a verifier built and dropped without verifying (pending closures never run)
    AbandonedVerifier,
    /// a prover built and dropped without proving
    AbandonedProver,
}

impl Prior {
    pub fn name(&self) -> String {
        match self {
            Prior::IdPoint(i) => format!("verify(identity at point slot {})", i),
            Prior::TxShift => "verify(t_x+1)".into(),
            Prior::BadWitness => "prove+verify(bad witness)".into(),
            Prior::ProveFewGens => "prove(too few generators)".into(),
            Prior::VerifyFewGens => "verify(too few generators)".into(),
            Prior::DecodeTruncated => "decode(truncated)".into(),
            Prior::DecodeBadPoint => "decode(invalid point)".into(),
            Prior::DecodeBadScalar => "decode(non-canonical scalar)".into(),
            Prior::DropRound => "verify(one round dropped)".into(),
            Prior::BatchMixed => "batch_verify(valid, invalid)".into(),
            Prior::IdentityCommitment => "verify(identity commitment)".into(),
            Prior::WrongLabel => "verify(other label)".into(),
            Prior::HonestOther => "honest run of another program".into(),
            Prior::HonestSize(n) => format!("honest run with {} gates", n),
            Prior::AbandonedVerifier => "verifier dropped before verify".into(),
            Prior::AbandonedProver => "prover dropped before prove".into(),
        }
    }
    pub fn parse(s: &str) -> Option<Prior> {
        alphabet().into_iter().find(|p| p.name() == s)
    }
}

pub fn alphabet() -> Vec<Prior> {
    let mut v: Vec<Prior> = (0..13).map(Prior::IdPoint).collect();
    v.extend([
        Prior::TxShift,
        Prior::BadWitness,
        Prior::ProveFewGens,
        Prior::VerifyFewGens,
        Prior::DecodeTruncated,
        Prior::DecodeBadPoint,
        Prior::DecodeBadScalar,
        Prior::DropRound,
        Prior::BatchMixed,
        Prior::IdentityCommitment,
        Prior::WrongLabel,
        Prior::HonestOther,
        Prior::HonestSize(1),
        Prior::HonestSize(2),
        Prior::HonestSize(3),
        Prior::HonestSize(5),
        Prior::AbandonedVerifier,
        Prior::AbandonedProver,
    ]);
    v
}

/// the program the prior events are played on: both phases populated, 3 gates (two rounds)
pub fn prior_program() -> Program {
    Program::parse("C M Ka R[M Ka M]").expect("prior program")
}
fn other_program() -> Program {
    Program::parse("C C A A A R[A Kb]").expect("other program")
}

/// Base material for the events, made once per thread of cases (an honest proof of the prior program).
pub struct PriorBase<G: Cv> {
    pub prog: Program,
    pub comms: Vec<G>,
    pub proof: R1CSProof<G>,
    pub parts: Parts<G>,
}

pub fn base<G: Cv>(env: &Env<G>, seed: u64) -> Result<PriorBase<G>, String> {
    let prog = prior_program();
    let pr = program::try_prove::<G>(&prog, &env.pc, &env.bp, seed, "history-base", Dev::None)?;
    let bytes = pr.proof.clone()?;
    let proof = pr.obj.clone().ok_or("no proof object")?;
    let parts = Parts::<G>::parse(&bytes).ok_or("the harness parser does not read the honest encoding")?;
    Ok(PriorBase { prog, comms: pr.commitments, proof, parts })
}

/// Play one event on the current thread. The outcome of the event itself is nobody's business
/// here (other checks decide it); a panic is reported so that the caller can count it as a
/// precondition failure instead of running its subject.
pub fn play<G: Cv>(env: &Env<G>, b: &PriorBase<G>, p: &Prior, seed: u64) -> Result<(), String> {
    guarded(|| {
        let verify_parts = |q: &Parts<G>| {
            if let Ok(proof) = q.to_proof() {
                let _ = program::verify::<G>(&b.prog, &env.pc, &env.bp, seed, Dev::None, &b.comms, &proof, program::LABEL);
            }
        };
        match p {
            Prior::IdPoint(i) => {
                let slot = match *i {
                    11 => Slot::L(0),
                    12 => Slot::R(0),
                    k => Slot::Pt(k),
                };
                let q = devspace::apply(&b.parts, &PDev::PtIdentity(slot), &env.pc, seed);
                verify_parts(&q);
            }
            Prior::TxShift => {
                let mut q = b.parts.clone();
                q.sc[0] += G::ScalarField::one();
                verify_parts(&q);
            }
            Prior::BadWitness => {
                let pr = program::prove::<G>(&b.prog, &env.pc, &env.bp, seed, "history-bad", Dev::Witness { idx: 0, delta: G::ScalarField::one() });
                if let Some(obj) = pr.obj {
                    let _ = program::verify::<G>(&b.prog, &env.pc, &env.bp, seed, Dev::None, &pr.commitments, &obj, program::LABEL);
                }
            }
            Prior::ProveFewGens => {
                let small = BulletproofGens::<G>::new(1, 1);
                let _ = program::prove::<G>(&b.prog, &env.pc, &small, seed, "history-few", Dev::None);
            }
            Prior::VerifyFewGens => {
                let small = BulletproofGens::<G>::new(1, 1);
                let _ = program::verify::<G>(&b.prog, &env.pc, &small, seed, Dev::None, &b.comms, &b.proof, program::LABEL);
            }
            Prior::DecodeTruncated => {
                let bytes = b.parts.to_bytes();
                let _ = R1CSProof::<G>::from_bytes(&bytes[..bytes.len() - 1]);
                let _ = R1CSProof::<G>::from_bytes(&bytes[..7]);
            }
            Prior::DecodeBadPoint => {
                let mut bytes = b.parts.to_bytes();
                let plen = crate::curves::pt_bytes(&G::generator()).len();
                for x in bytes[..plen].iter_mut() {
                    *x = 0xff;
                }
                let _ = R1CSProof::<G>::from_bytes(&bytes);
            }
            Prior::DecodeBadScalar => {
                let mut bytes = b.parts.to_bytes();
                let off = Parts::<G>::offset_of_scalar(0);
                for x in bytes[off..off + 32].iter_mut() {
                    *x = 0xff;
                }
                let _ = R1CSProof::<G>::from_bytes(&bytes);
            }
            Prior::DropRound => {
                let q = devspace::apply(&b.parts, &PDev::DropLast, &env.pc, seed);
                verify_parts(&q);
            }
            Prior::BatchMixed => {
                let mut bad = b.parts.clone();
                bad.b += G::ScalarField::one();
                if let Ok(badp) = bad.to_proof() {
                    let mut t1 = Transcript::new(program::LABEL);
                    let mut t2 = Transcript::new(program::LABEL);
                    let (v1, _c1) = build_verifier::<G, &mut Transcript>(&b.prog, &env.pc, &mut t1, seed, Dev::None, &b.comms);
                    let (v2, _c2) = build_verifier::<G, &mut Transcript>(&b.prog, &env.pc, &mut t2, seed, Dev::None, &b.comms);
                    let mut rng = crate::alphabet::chacha(seed, "history-batch");
                    let _ = batch_verify(&mut rng, vec![(v1, &b.proof), (v2, &badp)], &env.pc, &env.bp);
                }
            }
            Prior::IdentityCommitment => {
                let comms: Vec<G> = b.comms.iter().map(|_| G::zero()).collect();
                let _ = program::verify::<G>(&b.prog, &env.pc, &env.bp, seed, Dev::None, &comms, &b.proof, program::LABEL);
            }
            Prior::WrongLabel => {
                let _ = program::verify::<G>(&b.prog, &env.pc, &env.bp, seed, Dev::None, &b.comms, &b.proof, program::LABEL_ALT);
            }
            Prior::HonestOther => {
                let o = other_program();
                let pr = program::prove::<G>(&o, &env.pc, &env.bp, seed, "history-other", Dev::None);
                if let Some(obj) = pr.obj {
                    let _ = program::verify::<G>(&o, &env.pc, &env.bp, seed, Dev::None, &pr.commitments, &obj, program::LABEL);
                }
            }
            Prior::HonestSize(n) => {
                let o = match n {
                    1 => "M Ka",
                    2 => "M M Ka",
                    3 => "M M R[M Ka]",
                    _ => "M M M R[M M Ka]",
                };
                let o = Program::parse(o).expect("size program");
                let pr = program::prove::<G>(&o, &env.pc, &env.bp, seed ^ 0x55, "history-size", Dev::None);
                if let Some(obj) = pr.obj {
                    let _ = program::verify::<G>(&o, &env.pc, &env.bp, seed ^ 0x55, Dev::None, &pr.commitments, &obj, program::LABEL);
                }
            }
            Prior::AbandonedVerifier => {
                let mut t = Transcript::new(program::LABEL);
                let (v, c) = build_verifier::<G, &mut Transcript>(&b.prog, &env.pc, &mut t, seed, Dev::None, &b.comms);
                drop(v);
                drop(c);
            }
            Prior::AbandonedProver => {
                let t = Transcript::new(program::LABEL);
                let (pv, c, _) = program::build_prover::<G, Transcript>(&b.prog, &env.pc, t, seed, Dev::None);
                drop(pv);
                drop(c);
            }
        }
    })
}

/// All histories of exactly `depth` events (depth 0 = the empty history).
pub fn histories(depth: usize) -> Vec<Vec<Prior>> {
    let a = alphabet();
    let mut out: Vec<Vec<Prior>> = vec![vec![]];
    for _ in 0..depth {
        out = out.into_iter().flat_map(|h| a.iter().map(move |e| { let mut x = h.clone(); x.push(e.clone()); x })).collect();
    }
    out
}
pub fn hist_name(h: &[Prior]) -> String {
    h.iter().map(|p| p.name()).collect::<Vec<_>>().join(" ; ")
}
pub fn parse_hist(s: &str) -> Option<Vec<Prior>> {
    if s.trim().is_empty() {
        return Some(vec![]);
    }
    s.split(" ; ").map(Prior::parse).collect()
}
