//! Program AST, the reference constraint system `RefCs`, and the interpreter that drives the
//! real `Prover` / `Verifier` (and their randomized-phase wrappers) from one `Program` value.
//!
//! DESIGN §3.3 / Appendix B.
use ark_bulletproofs::r1cs::{
    ConstraintSystem, LinearCombination, Prover, RandomizableConstraintSystem,
    RandomizedConstraintSystem, Variable, Verifier,
};
use ark_bulletproofs::{BulletproofGens, PedersenGens};
use ark_ec::AffineRepr;
use ark_ff::PrimeField;
use merlin::Transcript;
use std::borrow::BorrowMut;
use std::cell::RefCell;
use std::rc::Rc;

use crate::alphabet;

// ---------------------------------------------------------------------------------------------
// AST

#[derive(Clone, Copy, Debug, PartialEq, Eq, Hash, PartialOrd, Ord)]
pub enum Shape {
    /// newest handle (or One)
    A,
    /// newest committed variable (or the constant 3)
    B,
    /// c1*vars[-1] + c2*vars[-2] - 7 + c2*vars[-1] + 2   (repeated variable, two constant terms)
    C,
    /// sum (i+1)*vars[i]
    D,
    /// the constant c1 alone
    E,
    /// L + 2R - O of the most recent gate (or constant 5)
    G,
    /// Right wire of the most recent gate
    R,
    /// Output wire of the most recent gate
    O,
    /// V0 + (number of gates)  (committed variable 0 plus a constant), for the X size family
    V,
    /// no terms at all (the empty linear combination)
    N,
    /// the sum of all committed variables, coefficient 1 each (symmetric in the commitments)
    S,
    /// the newest handle twice, as two adjacent identical terms `x + x` (or `1 + 1`): a term list
    /// that "compaction" of equal neighbours would change
    W,
}

#[derive(Clone, Copy, Debug, PartialEq, Eq, Hash, PartialOrd, Ord)]
pub enum Op {
    /// commit (phase 1 only)
    C,
    /// commit the value 0 with blinding 0: the commitment is the identity point
    C0,
    /// commit again the very same opening as the most recent commitment (same value, same
    /// blinding, hence the same point); plain commit if there is none yet
    CD,
    /// allocate
    A,
    /// allocate_multiplier
    M,
    /// allocate with no assignment on the prover (expects MissingAssignment); plain allocate on the verifier
    AN,
    /// allocate_multiplier with no assignment on the prover; plain on the verifier
    MN,
    /// multiply(shape, shape)
    X(Shape, Shape),
    /// constrain(shape - value(shape))
    K(Shape),
    /// transcript().append_message(b"app", counter)
    T,
    /// challenge_scalar (phase 2 only)
    Z,
}

pub const X1: Op = Op::X(Shape::A, Shape::B);
pub const X2: Op = Op::X(Shape::C, Shape::A);
pub const P1_LETTERS: [Op; 12] = [
    Op::C,
    Op::A,
    Op::M,
    X1,
    X2,
    Op::K(Shape::A),
    Op::K(Shape::B),
    Op::K(Shape::C),
    Op::K(Shape::D),
    Op::K(Shape::E),
    Op::K(Shape::N),
    Op::T,
];
pub const P2_LETTERS: [Op; 12] = [
    Op::Z,
    Op::A,
    Op::M,
    X1,
    X2,
    Op::K(Shape::A),
    Op::K(Shape::B),
    Op::K(Shape::C),
    Op::K(Shape::D),
    Op::K(Shape::E),
    Op::K(Shape::N),
    Op::T,
];

impl Op {
    pub fn name(&self) -> String {
        fn s(x: Shape) -> &'static str {
            match x {
                Shape::A => "a",
                Shape::B => "b",
                Shape::C => "c",
                Shape::D => "d",
                Shape::E => "e",
                Shape::G => "g",
                Shape::R => "r",
                Shape::O => "o",
                Shape::V => "v",
                Shape::N => "n",
                Shape::S => "s",
                Shape::W => "w",
            }
        }
        match self {
            Op::C => "C".into(),
            Op::CD => "Cd".into(),
            Op::C0 => "C0".into(),
            Op::A => "A".into(),
            Op::M => "M".into(),
            Op::AN => "An".into(),
            Op::MN => "Mn".into(),
            Op::X(l, r) => format!("X{}{}", s(*l), s(*r)),
            Op::K(x) => format!("K{}", s(*x)),
            Op::T => "T".into(),
            Op::Z => "Z".into(),
        }
    }
    pub fn parse(t: &str) -> Option<Op> {
        fn sh(c: char) -> Option<Shape> {
            Some(match c {
                'a' => Shape::A,
                'b' => Shape::B,
                'c' => Shape::C,
                'd' => Shape::D,
                'e' => Shape::E,
                'g' => Shape::G,
                'r' => Shape::R,
                'o' => Shape::O,
                'v' => Shape::V,
                'n' => Shape::N,
                's' => Shape::S,
                'w' => Shape::W,
                _ => return None,
            })
        }
        let cs: Vec<char> = t.chars().collect();
        match (cs.first()?, cs.len()) {
            ('C', 1) => Some(Op::C),
            ('A', 1) => Some(Op::A),
            ('M', 1) => Some(Op::M),
            ('T', 1) => Some(Op::T),
            ('Z', 1) => Some(Op::Z),
            ('C', 2) if cs[1] == 'd' => Some(Op::CD),
            ('C', 2) if cs[1] == '0' => Some(Op::C0),
            ('A', 2) if cs[1] == 'n' => Some(Op::AN),
            ('M', 2) if cs[1] == 'n' => Some(Op::MN),
            ('K', 2) => Some(Op::K(sh(cs[1])?)),
            ('X', 3) => Some(Op::X(sh(cs[1])?, sh(cs[2])?)),
            _ => None,
        }
    }
}

#[derive(Clone, Debug, PartialEq, Eq, Hash, Default)]
pub struct Program {
    pub p1: Vec<Op>,
    pub closures: Vec<Vec<Op>>,
    /// explicit value indices into VAL consumed before the positional rotation takes over
    pub values: Vec<usize>,
}

impl Program {
    pub fn new(p1: Vec<Op>, closures: Vec<Vec<Op>>) -> Self {
        Program { p1, closures, values: vec![] }
    }
    pub fn name(&self) -> String {
        let mut parts: Vec<String> = self.p1.iter().map(|o| o.name()).collect();
        for c in &self.closures {
            parts.push(format!("R[{}]", c.iter().map(|o| o.name()).collect::<Vec<_>>().join(" ")));
        }
        let mut s = parts.join(" ");
        if !self.values.is_empty() {
            s.push_str(&format!(
                " vals={}",
                self.values.iter().map(|v| v.to_string()).collect::<Vec<_>>().join(",")
            ));
        }
        if s.is_empty() {
            s = "<empty>".into();
        }
        s
    }
    pub fn parse(s: &str) -> Option<Program> {
        let mut p = Program::default();
        let mut rest = s.trim();
        if rest == "<empty>" {
            return Some(p);
        }
        if let Some(i) = rest.find(" vals=") {
            let v = &rest[i + 6..];
            p.values = v.split(',').filter(|x| !x.is_empty()).map(|x| x.parse().ok()).collect::<Option<Vec<_>>>()?;
            rest = &rest[..i];
        } else if let Some(v) = rest.strip_prefix("vals=") {
            p.values = v.split(',').filter(|x| !x.is_empty()).map(|x| x.parse().ok()).collect::<Option<Vec<_>>>()?;
            rest = "";
        }
        let mut cur: Option<Vec<Op>> = None;
        for tok in rest.split_whitespace() {
            let mut t = tok;
            if let Some(x) = t.strip_prefix("R[") {
                cur = Some(vec![]);
                t = x;
            }
            let close = t.ends_with(']');
            let t = t.trim_end_matches(']');
            if !t.is_empty() {
                let op = Op::parse(t)?;
                match cur.as_mut() {
                    Some(c) => c.push(op),
                    None => p.p1.push(op),
                }
            }
            if close {
                p.closures.push(cur.take()?);
            }
        }
        Some(p)
    }
    pub fn total_ops(&self) -> usize {
        self.p1.len() + self.closures.iter().map(|c| c.len()).sum::<usize>()
    }
    /// static counts from an abstract run of the allocator: (witness inputs, explicit constraints, gates, phase-1 gates)
    pub fn stats(&self) -> (usize, usize, usize, usize) {
        fn step(op: &Op, pending: &mut bool, w: &mut usize, k: &mut usize, g: &mut usize) {
            match op {
                Op::C | Op::CD | Op::C0 => *w += 1,
                Op::A | Op::AN => {
                    *w += 1;
                    if *pending {
                        *pending = false
                    } else {
                        *g += 1;
                        *pending = true
                    }
                }
                Op::M | Op::MN => {
                    *w += 2;
                    *g += 1
                }
                Op::X(..) => *g += 1,
                Op::K(_) => *k += 1,
                _ => {}
            }
        }
        let (mut w, mut k, mut g) = (0, 0, 0);
        let mut pending = false;
        for op in &self.p1 {
            step(op, &mut pending, &mut w, &mut k, &mut g);
        }
        pending = false;
        let n1 = g;
        for c in &self.closures {
            for op in c {
                step(op, &mut pending, &mut w, &mut k, &mut g);
            }
        }
        (w, k, g, n1)
    }
    /// number of T ops
    pub fn t_ops(&self) -> usize {
        self.p1.iter().chain(self.closures.iter().flatten()).filter(|o| **o == Op::T).count()
    }
}

// ---------------------------------------------------------------------------------------------
// Reference constraint system

#[derive(Clone, Debug, Default, PartialEq)]
pub struct Assign<F: PrimeField> {
    pub v: Vec<F>,
    pub l: Vec<F>,
    pub r: Vec<F>,
    pub o: Vec<F>,
}

impl<F: PrimeField> Assign<F> {
    /// Value of a variable; a handle the model does not know (possible only when the subject
    /// handed out a handle the reference allocator would not have) evaluates to zero instead of
    /// taking the harness down - the divergence itself is recorded in `Ctx::problems`.
    pub fn get(&self, var: &Variable<F>) -> F {
        let z = F::zero();
        match var {
            Variable::Committed(i) => self.v.get(*i).cloned().unwrap_or(z),
            Variable::MultiplierLeft(i) => self.l.get(*i).cloned().unwrap_or(z),
            Variable::MultiplierRight(i) => self.r.get(*i).cloned().unwrap_or(z),
            Variable::MultiplierOutput(i) => self.o.get(*i).cloned().unwrap_or(z),
            Variable::One() => F::one(),
            _ => z,
        }
    }
    pub fn eval(&self, terms: &[(Variable<F>, F)]) -> F {
        let mut acc = F::zero();
        for (v, c) in terms {
            acc += self.get(v) * c;
        }
        acc
    }
}

pub type Terms<F> = Vec<(Variable<F>, F)>;

/// Plain-vector reference model of the constraint system both roles are meant to build.
#[derive(Clone, Debug, Default, PartialEq)]
pub struct RefCs<F: PrimeField> {
    /// the assignment the *statement* was derived from
    pub honest: Assign<F>,
    /// the assignment the prover actually holds (differs under C02 deviations)
    pub actual: Assign<F>,
    pub blind: Vec<F>,
    /// every constraint in the order `constrain` is reached, implicit ones of `multiply` included
    pub cons: Vec<Terms<F>>,
    /// for the k-th explicit K op: index into `cons`
    pub k_index: Vec<usize>,
    /// for the k-th explicit K op: number of terms of its shape (before the constant is appended)
    pub k_terms: Vec<usize>,
    pub pending: Option<usize>,
    /// gate count at the end of phase 1 (set at the phase switch)
    pub n1: Option<usize>,
}

impl<F: PrimeField> RefCs<F> {
    pub fn gates(&self) -> usize {
        self.honest.l.len()
    }
    pub fn n1(&self) -> usize {
        self.n1.unwrap_or(self.gates())
    }
    pub fn padded(&self) -> usize {
        self.gates().max(1).next_power_of_two()
    }
    pub fn phase_switch(&mut self) {
        self.pending = None;
        self.n1 = Some(self.gates());
    }
    fn push_gate(&mut self, h: (F, F, F), a: (F, F, F)) -> usize {
        let i = self.gates();
        self.honest.l.push(h.0);
        self.honest.r.push(h.1);
        self.honest.o.push(h.2);
        self.actual.l.push(a.0);
        self.actual.r.push(a.1);
        self.actual.o.push(a.2);
        i
    }
    /// model of `allocate`
    pub fn allocate(&mut self, h: F, a: F) -> Variable<F> {
        match self.pending {
            None => {
                let i = self.push_gate((h, F::zero(), F::zero()), (a, F::zero(), F::zero()));
                self.pending = Some(i);
                Variable::MultiplierLeft(i)
            }
            Some(i) => {
                self.pending = None;
                self.honest.r[i] = h;
                self.honest.o[i] = self.honest.l[i] * h;
                self.actual.r[i] = a;
                self.actual.o[i] = self.actual.l[i] * a;
                Variable::MultiplierRight(i)
            }
        }
    }
    /// model of `allocate_multiplier` / the gate part of `multiply`
    pub fn gate(&mut self, h: (F, F), a: (F, F)) -> (Variable<F>, Variable<F>, Variable<F>) {
        let i = self.push_gate((h.0, h.1, h.0 * h.1), (a.0, a.1, a.0 * a.1));
        (
            Variable::MultiplierLeft(i),
            Variable::MultiplierRight(i),
            Variable::MultiplierOutput(i),
        )
    }
    pub fn commit(&mut self, h: F, a: F, blind: F) -> Variable<F> {
        let i = self.honest.v.len();
        self.honest.v.push(h);
        self.actual.v.push(a);
        self.blind.push(blind);
        Variable::Committed(i)
    }
    /// indices of constraints violated under `asg`
    pub fn violated_constraints(&self, asg: &Assign<F>) -> Vec<usize> {
        self.cons
            .iter()
            .enumerate()
            .filter(|(_, t)| !asg.eval(t).is_zero())
            .map(|(i, _)| i)
            .collect()
    }
    /// indices of gates with o != l*r under `asg`
    pub fn violated_gates(&self, asg: &Assign<F>) -> Vec<usize> {
        (0..asg.l.len()).filter(|&i| asg.l[i] * asg.r[i] != asg.o[i]).collect()
    }
    pub fn satisfied(&self, asg: &Assign<F>) -> bool {
        self.violated_constraints(asg).is_empty() && self.violated_gates(asg).is_empty()
    }
    /// The challenge-weighted vectors (wL, wR, wO, wV, wc) for a given z — this model's own
    /// flattening: constraint q (1-based) has weight z^q.
    pub fn flatten(&self, z: F) -> (Vec<F>, Vec<F>, Vec<F>, Vec<F>, F) {
        let n = self.gates();
        let m = self.honest.v.len();
        let mut wl = vec![F::zero(); n];
        let mut wr = vec![F::zero(); n];
        let mut wo = vec![F::zero(); n];
        let mut wv = vec![F::zero(); m];
        let mut wc = F::zero();
        let mut zq = F::one();
        for row in &self.cons {
            zq *= z;
            for (var, coeff) in row {
                let w = zq * coeff;
                match var {
                    Variable::MultiplierLeft(i) => wl[*i] += w,
                    Variable::MultiplierRight(i) => wr[*i] += w,
                    Variable::MultiplierOutput(i) => wo[*i] += w,
                    Variable::Committed(i) => wv[*i] -= w,
                    Variable::One() => wc -= w,
                    _ => {}
                }
            }
        }
        (wl, wr, wo, wv, wc)
    }
}

// ---------------------------------------------------------------------------------------------
// Deviations applied while interpreting (statement / witness side)

#[derive(Clone, Copy, Debug, PartialEq, Eq)]
pub enum Role {
    Prover,
    Verifier,
}

#[derive(Clone, Debug, PartialEq)]
pub enum Dev<F: PrimeField> {
    None,
    /// prover only: the idx-th witness input is shifted by delta
    Witness { idx: usize, delta: F },
    /// the k-th explicit constraint's constant is shifted; `both` = on both roles, else verifier only
    KConst { k: usize, delta: F, both: bool },
    /// both roles: the k-th explicit constraint's constant is shifted by an amount derived from the
    /// constraint's own constant terms (sel 0: -(sum), 1: +(sum), 2: -(first), 3: +(last)) or by minus half
    /// of the constraint's value (sel 4)
    KConstStruct { k: usize, sel: usize },
    /// both roles: the constants of two explicit constraints shifted by +delta and -delta
    /// times m1 resp. m2 (two violated rows whose residuals cancel if the rows' weights are ever
    /// in the ratio m2 : m1 - equal weights for m1 = m2 = 1)
    KConstPair { k1: usize, k2: usize, delta: F, m1: F, m2: F },
    /// verifier only: coefficient `term` of the k-th explicit constraint shifted
    KCoef { k: usize, term: usize, delta: F },
    /// prover only (hook H1): gate assignment overwritten at the end of the gate's phase
    Gate { gate: usize, field: u8, delta: F },
    /// prover only (hook H1): several wires of one gate shifted at once; `recompute_o` sets o = l*r afterwards
    GateVec { gate: usize, d: [F; 3], recompute_o: bool },
    /// verifier only: the t-th T op appends different data
    TChange { t: usize },
    /// verifier only: the t-th T op is skipped
    TRemove { t: usize },
    /// verifier only: an extra T append before global op position `at` (== total: at the very end)
    TInsert { at: usize },
}

#[derive(Clone, Debug)]
pub struct CallLog<F: PrimeField> {
    pub op: Op,
    pub handles: Vec<Variable<F>>,
    pub expected: Vec<Variable<F>>,
    pub mult_len: usize,
    pub expected_len: usize,
}

pub struct Ctx<F: PrimeField> {
    pub role: Role,
    pub val: Vec<F>,
    pub values: Vec<usize>,
    pub pos: usize,
    pub seed: u64,
    pub refcs: RefCs<F>,
    pub vars: Vec<Variable<F>>,
    pub committed: Vec<Variable<F>>,
    pub last_gate: Option<usize>,
    pub z: Option<F>,
    pub challenges: Vec<F>,
    pub tcount: usize,
    pub kcount: usize,
    pub wcount: usize,
    pub opcount: usize,
    pub trace: Vec<CallLog<F>>,
    pub dev: Dev<F>,
    pub problems: Vec<String>,
    /// multipliers_len() values that differ from the reference allocator's gate count
    pub len_notes: Vec<String>,
    /// number of witness inputs seen (for enumerating Dev::Witness sites)
    pub witness_sites: usize,
    /// app data appended by T ops, in order (what was actually appended)
    pub appended: Vec<Vec<u8>>,
    pub closures_run: usize,
    /// indices of the closures in the order the subject invoked them
    pub closure_order: Vec<usize>,
    /// set when the prover answered MissingAssignment to AN/MN: the history ends there
    pub missing: bool,
    /// what the prover returned for AN/MN when it was not the expected error
    pub missing_wrong: Option<String>,
}

impl<F: PrimeField> Ctx<F> {
    pub fn new(role: Role, seed: u64, values: Vec<usize>, dev: Dev<F>) -> Self {
        Ctx {
            role,
            val: alphabet::val::<F>(seed),
            values,
            pos: 0,
            seed,
            refcs: RefCs::default(),
            vars: vec![],
            committed: vec![],
            last_gate: None,
            z: None,
            challenges: vec![],
            tcount: 0,
            kcount: 0,
            wcount: 0,
            opcount: 0,
            trace: vec![],
            dev,
            problems: vec![],
            len_notes: vec![],
            witness_sites: 0,
            appended: vec![],
            closures_run: 0,
            closure_order: vec![],
            missing: false,
            missing_wrong: None,
        }
    }
    fn next_value(&mut self) -> F {
        let idx = if self.pos < self.values.len() {
            self.values[self.pos] % self.val.len()
        } else {
            self.pos % self.val.len()
        };
        self.pos += 1;
        self.val[idx]
    }
    /// coefficient source: positional rotation in phase 1 / before any Z; the latest challenge after
    fn coefs(&mut self) -> (F, F) {
        match self.z {
            Some(z) => (z, z + F::one()),
            None => {
                let a = self.val[(self.pos + 3) % self.val.len()];
                let b = self.val[(self.pos + 5) % self.val.len()];
                (a, b)
            }
        }
    }
    /// (honest, actual) pair for the next witness input
    fn next_witness(&mut self) -> (F, F) {
        let mut h = self.next_value();
        if let Some(z) = self.z {
            h *= z;
        }
        let mut a = h;
        if self.role == Role::Prover {
            if let Dev::Witness { idx, delta } = &self.dev {
                if *idx == self.wcount {
                    a += delta;
                }
            }
        }
        self.wcount += 1;
        self.witness_sites += 1;
        (h, a)
    }
    pub fn shape_terms(&mut self, s: Shape) -> Terms<F> {
        let one = Variable::One();
        match s {
            Shape::A => match self.vars.last() {
                Some(v) => vec![(*v, F::one())],
                None => vec![(one, F::one())],
            },
            Shape::B => match self.committed.last() {
                Some(v) => vec![(*v, F::one())],
                None => vec![(one, F::from(3u64))],
            },
            Shape::C => {
                let (c1, c2) = self.coefs();
                let mut t = vec![];
                let n = self.vars.len();
                if n >= 1 {
                    t.push((self.vars[n - 1], c1));
                }
                if n >= 2 {
                    t.push((self.vars[n - 2], c2));
                }
                t.push((one, -F::from(7u64)));
                // repeated variable and a second constant term in the same combination
                if n >= 1 {
                    t.push((self.vars[n - 1], c2));
                }
                t.push((one, F::from(2u64)));
                t
            }
            Shape::D => {
                let mut t: Terms<F> = self
                    .vars
                    .iter()
                    .enumerate()
                    .map(|(i, v)| (*v, F::from((i + 1) as u64)))
                    .collect();
                if t.is_empty() {
                    t.push((one, F::from(2u64)));
                }
                t
            }
            Shape::E => {
                let (c1, _) = self.coefs();
                vec![(one, c1)]
            }
            Shape::G => match self.last_gate {
                Some(i) => vec![
                    (Variable::MultiplierLeft(i), F::one()),
                    (Variable::MultiplierRight(i), F::from(2u64)),
                    (Variable::MultiplierOutput(i), -F::one()),
                ],
                None => vec![(one, F::from(5u64))],
            },
            Shape::R => match self.last_gate {
                Some(i) => vec![(Variable::MultiplierRight(i), F::one())],
                None => vec![(one, F::zero())],
            },
            Shape::O => match self.last_gate {
                Some(i) => vec![(Variable::MultiplierOutput(i), F::one())],
                None => vec![(one, F::zero())],
            },
            Shape::N => vec![],
            Shape::S => self.committed.iter().map(|v| (*v, F::one())).collect(),
            Shape::W => {
                let v = self.vars.last().copied().unwrap_or(one);
                vec![(v, F::one()), (v, F::one())]
            }
            Shape::V => {
                let g = F::from(self.refcs.gates() as u64);
                match self.committed.first() {
                    Some(v) => vec![(*v, F::one()), (one, g)],
                    None => vec![(one, g + F::one())],
                }
            }
        }
    }
}

pub fn lc<F: PrimeField>(terms: &Terms<F>) -> LinearCombination<F> {
    terms.iter().cloned().collect()
}

/// What the interpreter needs from a role in either phase.
pub trait Side<F: PrimeField> {
    fn cs(&mut self) -> &mut dyn ConstraintSystem<F>;
    fn commit(&mut self, _v: F, _blind: F) -> Variable<F> {
        unreachable!("commit outside phase 1")
    }
    fn challenge(&mut self) -> F {
        unreachable!("challenge outside phase 2")
    }
    fn override_gate(&mut self, _i: usize, _l: F, _r: F, _o: F) {}
}

fn t_append<F: PrimeField>(ctx: &mut Ctx<F>, side: &mut dyn Side<F>, data: Vec<u8>) {
    side.cs().transcript().append_message(b"app", &data);
    ctx.appended.push(data);
}

/// Execute one op on the real constraint system and on the reference model in lockstep.
pub fn exec_op<F: PrimeField>(op: Op, ctx: &mut Ctx<F>, side: &mut dyn Side<F>) {
    let is_v = ctx.role == Role::Verifier;
    if ctx.missing {
        return; // the history ended at the MissingAssignment error
    }
    let op = match op {
        Op::AN | Op::MN if !is_v => {
            // prover side: no assignment. Expect the error, no variable, no state change.
            let before = side.cs().multipliers_len();
            let res = if op == Op::AN {
                side.cs().allocate(None).map(|v| format!("{:?}", v))
            } else {
                side.cs().allocate_multiplier(None).map(|v| format!("{:?}", v))
            };
            match res {
                Err(ark_bulletproofs::r1cs::R1CSError::MissingAssignment) => {}
                other => ctx.missing_wrong = Some(format!("{:?}", other)),
            }
            let after = side.cs().multipliers_len();
            if after != before {
                ctx.problems.push(format!("{}: multipliers_len changed {} -> {} although the call failed", op.name(), before, after));
            }
            ctx.missing = true;
            ctx.opcount += 1;
            return;
        }
        Op::AN => Op::A,
        Op::MN => Op::M,
        o => o,
    };
    if is_v {
        if let Dev::TInsert { at } = ctx.dev {
            if at == ctx.opcount {
                t_append(ctx, side, b"inserted".to_vec());
            }
        }
    }
    ctx.opcount += 1;
    let mut handles = vec![];
    let mut expected = vec![];
    match op {
        Op::C => {
            let (h, a) = ctx.next_witness();
            let blind = alphabet::rho::<F>(ctx.seed, &format!("blind{}", ctx.refcs.honest.v.len()));
            let e = ctx.refcs.commit(h, a, blind);
            let v = side.commit(a, blind);
            handles.push(v);
            expected.push(e);
            ctx.vars.push(v);
            ctx.committed.push(v);
        }
        Op::C0 => {
            let h = F::zero();
            let mut a = h;
            if ctx.role == Role::Prover {
                if let Dev::Witness { idx, delta } = &ctx.dev {
                    if *idx == ctx.wcount {
                        a += delta;
                    }
                }
            }
            ctx.wcount += 1;
            ctx.witness_sites += 1;
            let e = ctx.refcs.commit(h, a, F::zero());
            let v = side.commit(a, F::zero());
            handles.push(v);
            expected.push(e);
            ctx.vars.push(v);
            ctx.committed.push(v);
        }
        Op::CD => {
            let m = ctx.refcs.honest.v.len();
            let (h, a, blind) = if m == 0 {
                let (h, a) = ctx.next_witness();
                (h, a, alphabet::rho::<F>(ctx.seed, "blind0"))
            } else {
                ctx.wcount += 1;
                ctx.witness_sites += 1;
                (ctx.refcs.honest.v[m - 1], ctx.refcs.actual.v[m - 1], ctx.refcs.blind[m - 1])
            };
            let e = ctx.refcs.commit(h, a, blind);
            let v = side.commit(a, blind);
            handles.push(v);
            expected.push(e);
            ctx.vars.push(v);
            ctx.committed.push(v);
        }
        Op::A => {
            let (h, a) = ctx.next_witness();
            let e = ctx.refcs.allocate(h, a);
            let r = side.cs().allocate(if is_v { None } else { Some(a) });
            match r {
                Ok(v) => {
                    handles.push(v);
                    ctx.vars.push(v);
                }
                Err(err) => ctx.problems.push(format!("allocate returned Err({:?})", err)),
            }
            expected.push(e);
            if let Variable::MultiplierLeft(i) | Variable::MultiplierRight(i) = e {
                ctx.last_gate = Some(i);
            }
        }
        Op::M => {
            let (h1, a1) = ctx.next_witness();
            let (h2, a2) = ctx.next_witness();
            let e = ctx.refcs.gate((h1, h2), (a1, a2));
            let r = side.cs().allocate_multiplier(if is_v { None } else { Some((a1, a2)) });
            match r {
                Ok((l, r, o)) => {
                    handles.extend_from_slice(&[l, r, o]);
                    ctx.vars.extend_from_slice(&[l, r, o]);
                }
                Err(err) => ctx.problems.push(format!("allocate_multiplier returned Err({:?})", err)),
            }
            expected.extend_from_slice(&[e.0, e.1, e.2]);
            if let Variable::MultiplierLeft(i) = e.0 {
                ctx.last_gate = Some(i);
            }
        }
        Op::X(sl, sr) => {
            let tl = ctx.shape_terms(sl);
            let tr = ctx.shape_terms(sr);
            let hl = ctx.refcs.honest.eval(&tl);
            let hr = ctx.refcs.honest.eval(&tr);
            let al = ctx.refcs.actual.eval(&tl);
            let ar = ctx.refcs.actual.eval(&tr);
            let e = ctx.refcs.gate((hl, hr), (al, ar));
            let mut cl = tl.clone();
            cl.push((e.0, -F::one()));
            let mut cr = tr.clone();
            cr.push((e.1, -F::one()));
            ctx.refcs.cons.push(cl);
            ctx.refcs.cons.push(cr);
            let (l, r, o) = side.cs().multiply(lc(&tl), lc(&tr));
            handles.extend_from_slice(&[l, r, o]);
            expected.extend_from_slice(&[e.0, e.1, e.2]);
            ctx.vars.extend_from_slice(&[l, r, o]);
            if let Variable::MultiplierLeft(i) = e.0 {
                ctx.last_gate = Some(i);
            }
        }
        Op::K(s) => {
            let mut t = ctx.shape_terms(s);
            let mut c = ctx.refcs.honest.eval(&t);
            match &ctx.dev {
                Dev::KConst { k, delta, both } if *k == ctx.kcount && (*both || is_v) => {
                    c += delta;
                }
                Dev::KConstPair { k1, delta, m1, .. } if *k1 == ctx.kcount => {
                    c += *delta * *m1;
                }
                Dev::KConstPair { k2, delta, m2, .. } if *k2 == ctx.kcount => {
                    c -= *delta * *m2;
                }
                Dev::KConstStruct { k, sel } if *k == ctx.kcount => {
                    let ones: Vec<F> = t.iter().filter(|x| matches!(x.0, Variable::One())).map(|x| x.1).collect();
                    let sum: F = ones.iter().cloned().sum();
                    let half = c * F::from(2u64).inverse().unwrap();
                    c += match sel {
                        0 => -sum,
                        1 => sum,
                        2 => -ones.first().cloned().unwrap_or(F::zero()),
                        3 => ones.last().cloned().unwrap_or(F::zero()),
                        // the constant is halved: what `x + x - c` would need if one `x` were lost
                        _ => -half,
                    };
                }
                Dev::KCoef { k, term, delta } if *k == ctx.kcount && is_v && !t.is_empty() => {
                    let j = *term % t.len();
                    t[j].1 += delta;
                }
                _ => {}
            }
            // gadget code writes `constrain(lc)` without a constant when there is none: the empty
            // combination and the bare wire constraints are passed exactly like that
            ctx.refcs.k_terms.push(t.len());
            let bare = matches!(s, Shape::N | Shape::R | Shape::O) && c.is_zero();
            if !bare {
                t.push((Variable::One(), -c));
            }
            ctx.refcs.k_index.push(ctx.refcs.cons.len());
            ctx.refcs.cons.push(t.clone());
            ctx.kcount += 1;
            side.cs().constrain(lc(&t));
        }
        Op::T => {
            let t = ctx.tcount;
            ctx.tcount += 1;
            let mut data = (t as u64).to_le_bytes().to_vec();
            let mut skip = false;
            if is_v {
                match ctx.dev {
                    Dev::TChange { t: tt } if tt == t => data[7] ^= 0x80,
                    Dev::TRemove { t: tt } if tt == t => skip = true,
                    _ => {}
                }
            }
            if !skip {
                t_append(ctx, side, data);
            }
        }
        Op::AN | Op::MN => unreachable!(),
        Op::Z => {
            let z = side.challenge();
            ctx.z = Some(z);
            ctx.challenges.push(z);
        }
    }
    let mult_len = side.cs().multipliers_len();
    let expected_len = ctx.refcs.gates();
    if handles != expected {
        ctx.problems.push(format!(
            "op #{} {}: handles {:?} but the reference allocator expects {:?}",
            ctx.opcount - 1,
            op.name(),
            handles,
            expected
        ));
    }
    if mult_len != expected_len {
        // informational: the statement under test only requires the two roles to agree on the
        // count (C16 compares them with each other); a count that differs from the model's is
        // not by itself a divergence of the constraint systems
        ctx.len_notes.push(format!(
            "op #{} {}: multipliers_len() = {} but the reference allocator has {}",
            ctx.opcount - 1,
            op.name(),
            mult_len,
            expected_len
        ));
    }
    ctx.trace.push(CallLog { op, handles, expected, mult_len, expected_len });
}

/// Applied at the end of a section (phase 1, or the last closure): end-of-section T insertion
/// and the gate override of hook H1.
fn end_of_section<F: PrimeField>(ctx: &mut Ctx<F>, side: &mut dyn Side<F>, last: bool, phase1: bool) {
    if ctx.role == Role::Verifier && last {
        if let Dev::TInsert { at } = ctx.dev {
            if at == ctx.opcount {
                t_append(ctx, side, b"inserted".to_vec());
                ctx.opcount += 1; // never fires twice
            }
        }
    }
    if ctx.role == Role::Prover {
        if let Dev::GateVec { gate, d, recompute_o } = ctx.dev.clone() {
            let n = ctx.refcs.gates();
            let n1 = ctx.refcs.n1.unwrap_or(n);
            let in_this = if phase1 { gate < n } else { last && gate >= n1 && gate < n };
            if in_this {
                let a = &mut ctx.refcs.actual;
                a.l[gate] += d[0];
                a.r[gate] += d[1];
                a.o[gate] += d[2];
                if recompute_o {
                    a.o[gate] = a.l[gate] * a.r[gate];
                }
                let (l, r, o) = (a.l[gate], a.r[gate], a.o[gate]);
                if ctx.problems.is_empty() {
                    side.override_gate(gate, l, r, o);
                } else {
                    ctx.problems.push(format!("gate override skipped for gate {}: the subject's handles already diverge from the model", gate));
                }
            }
        }
        if let Dev::Gate { gate, field, delta } = ctx.dev.clone() {
            let n = ctx.refcs.gates();
            let n1 = ctx.refcs.n1.unwrap_or(n);
            let in_this = if phase1 { gate < n } else { last && gate >= n1 && gate < n };
            if in_this {
                let a = &mut ctx.refcs.actual;
                match field {
                    0 => a.l[gate] += delta,
                    1 => a.r[gate] += delta,
                    _ => a.o[gate] += delta,
                }
                let (l, r, o) = (a.l[gate], a.r[gate], a.o[gate]);
                if ctx.problems.is_empty() {
                    side.override_gate(gate, l, r, o);
                } else {
                    ctx.problems.push(format!("gate override skipped for gate {}: the subject's handles already diverge from the model", gate));
                }
            }
        }
    }
}

// ---------------------------------------------------------------------------------------------
// Sides

pub struct ProverSide1<'a, 'g, G: AffineRepr, T: BorrowMut<Transcript>> {
    pub p: &'a mut Prover<'g, G, T>,
    pub commitments: &'a mut Vec<G>,
}
impl<'a, 'g, G: AffineRepr, T: BorrowMut<Transcript>> Side<G::ScalarField> for ProverSide1<'a, 'g, G, T> {
    fn cs(&mut self) -> &mut dyn ConstraintSystem<G::ScalarField> {
        self.p
    }
    fn commit(&mut self, v: G::ScalarField, blind: G::ScalarField) -> Variable<G::ScalarField> {
        let (c, var) = self.p.commit(v, blind);
        self.commitments.push(c);
        var
    }
    fn override_gate(&mut self, i: usize, l: G::ScalarField, r: G::ScalarField, o: G::ScalarField) {
        self.p.verif_override_gate(i, l, r, o)
    }
}

pub struct VerifierSide1<'a, G: AffineRepr, T: BorrowMut<Transcript>> {
    pub v: &'a mut Verifier<G, T>,
    pub commitments: &'a [G],
    pub next: usize,
    pub pc: PedersenGens<G>,
}
impl<'a, G: AffineRepr, T: BorrowMut<Transcript>> Side<G::ScalarField> for VerifierSide1<'a, G, T> {
    fn cs(&mut self) -> &mut dyn ConstraintSystem<G::ScalarField> {
        self.v
    }
    fn commit(&mut self, v: G::ScalarField, blind: G::ScalarField) -> Variable<G::ScalarField> {
        let c = if self.next < self.commitments.len() {
            self.commitments[self.next]
        } else {
            self.pc.commit(v, blind)
        };
        self.next += 1;
        self.v.commit(c)
    }
}

pub struct Side2<'a, R, F: PrimeField> {
    pub r: &'a mut R,
    pub ov: Option<&'a dyn Fn(&mut R, usize, F, F, F)>,
}
impl<'a, F: PrimeField, R: RandomizedConstraintSystem<F>> Side<F> for Side2<'a, R, F> {
    fn cs(&mut self) -> &mut dyn ConstraintSystem<F> {
        self.r
    }
    fn challenge(&mut self) -> F {
        self.r.challenge_scalar(b"ch")
    }
    fn override_gate(&mut self, i: usize, l: F, r: F, o: F) {
        if let Some(f) = self.ov {
            f(self.r, i, l, r, o)
        }
    }
}

pub type SharedCtx<F> = Rc<RefCell<Ctx<F>>>;

fn run_closure<F: PrimeField>(ctx: &SharedCtx<F>, ops: &[Op], side: &mut dyn Side<F>, idx: usize, total: usize) -> Result<(), ark_bulletproofs::r1cs::R1CSError> {
    let mut guard = RefCell::borrow_mut(ctx);
    let c: &mut Ctx<F> = &mut guard;
    // the harness does not assume an invocation order: the first closure the subject invokes
    // marks the phase switch, the last one ends the section
    if c.closures_run == 0 {
        c.refcs.phase_switch();
    }
    c.closure_order.push(idx);
    for op in ops {
        exec_op(*op, c, side);
    }
    c.closures_run += 1;
    let last = c.closures_run == total;
    end_of_section(c, side, last, false);
    if c.missing && c.role == Role::Prover {
        // what a gadget would do with `?`
        return Err(ark_bulletproofs::r1cs::R1CSError::MissingAssignment);
    }
    Ok(())
}

/// Build a real `Prover` from a program. Returns the prover (ready for `prove`), the shared
/// interpretation context and the commitments it returned.
pub fn build_prover<'g, G: AffineRepr, T: BorrowMut<Transcript>>(
    prog: &Program,
    pc: &'g PedersenGens<G>,
    transcript: T,
    seed: u64,
    dev: Dev<G::ScalarField>,
) -> (Prover<'g, G, T>, SharedCtx<G::ScalarField>, Vec<G>) {
    let mut prover = Prover::new(pc, transcript);
    let mut ctx = Ctx::new(Role::Prover, seed, prog.values.clone(), dev);
    let mut commitments = vec![];
    {
        let mut side = ProverSide1 { p: &mut prover, commitments: &mut commitments };
        for op in &prog.p1 {
            exec_op(*op, &mut ctx, &mut side);
        }
        end_of_section(&mut ctx, &mut side, prog.closures.is_empty(), true);
    }
    let ctx = Rc::new(RefCell::new(ctx));
    let total = prog.closures.len();
    for (idx, body) in prog.closures.iter().enumerate() {
        let body = body.clone();
        let c2 = ctx.clone();
        prover
            .specify_randomized_constraints(move |rcs| {
                let ov = |r: &mut _, i: usize, l, rr, o| {
                    let r: &mut <Prover<'g, G, T> as RandomizableConstraintSystem<G::ScalarField>>::RandomizedCS = r;
                    r.verif_override_gate(i, l, rr, o)
                };
                let mut side = Side2 { r: rcs, ov: Some(&ov) };
                run_closure(&c2, &body, &mut side, idx, total)
            })
            .unwrap();
    }
    (prover, ctx, commitments)
}

/// Build a real `Verifier` from a program and the prover's commitments.
pub fn build_verifier<G: AffineRepr, T: BorrowMut<Transcript>>(
    prog: &Program,
    pc: &PedersenGens<G>,
    transcript: T,
    seed: u64,
    dev: Dev<G::ScalarField>,
    commitments: &[G],
) -> (Verifier<G, T>, SharedCtx<G::ScalarField>) {
    let mut verifier = Verifier::new(transcript);
    let mut ctx = Ctx::new(Role::Verifier, seed, prog.values.clone(), dev);
    {
        let mut side = VerifierSide1 { v: &mut verifier, commitments, next: 0, pc: *pc };
        for op in &prog.p1 {
            exec_op(*op, &mut ctx, &mut side);
        }
        end_of_section(&mut ctx, &mut side, prog.closures.is_empty(), true);
    }
    let ctx = Rc::new(RefCell::new(ctx));
    let total = prog.closures.len();
    for (idx, body) in prog.closures.iter().enumerate() {
        let body = body.clone();
        let c2 = ctx.clone();
        verifier
            .specify_randomized_constraints(move |rcs| {
                let mut side = Side2 { r: rcs, ov: None };
                run_closure(&c2, &body, &mut side, idx, total)
            })
            .unwrap();
    }
    (verifier, ctx)
}

pub fn take_ctx<F: PrimeField>(c: SharedCtx<F>) -> Ctx<F> {
    match Rc::try_unwrap(c) {
        Ok(cell) => cell.into_inner(),
        Err(_) => panic!("interpretation context still shared (closure not dropped)"),
    }
}

/// A phase switch happens inside prove/verify even when there is no closure; mirror it.
pub fn finish_ctx<F: PrimeField>(ctx: &mut Ctx<F>) {
    if ctx.refcs.n1.is_none() {
        ctx.refcs.phase_switch();
    }
}

// ---------------------------------------------------------------------------------------------
// Convenience: shared per-curve environment and one-call honest runs

pub struct Env<G: AffineRepr> {
    pub pc: PedersenGens<G>,
    pub bp: BulletproofGens<G>,
}
impl<G: AffineRepr> Env<G> {
    pub fn new(cap: usize) -> Self {
        Env { pc: PedersenGens::default(), bp: BulletproofGens::new(cap, 1) }
    }
}

pub const LABEL: &[u8] = b"bpverif";
pub const LABEL_ALT: &[u8] = b"bpverif-alt";

/// Variant name of an error value (messages may be reworded; the variant is the observable).
pub fn err_name(e: &ark_bulletproofs::r1cs::R1CSError) -> String {
    use ark_bulletproofs::r1cs::R1CSError::*;
    match e {
        InvalidGeneratorsLength => "InvalidGeneratorsLength".into(),
        FormatError => "FormatError".into(),
        VerificationError => "VerificationError".into(),
        MissingAssignment => "MissingAssignment".into(),
        GadgetError { description } => format!("GadgetError({})", description),
    }
}

pub struct Proved<G: AffineRepr> {
    /// Ok(proof bytes) or Err(error text)
    pub proof: Result<Vec<u8>, String>,
    /// the proof object itself (so that honest runs do not depend on the decoder, which is C11's business)
    pub obj: Option<ark_bulletproofs::r1cs::R1CSProof<G>>,
    pub commitments: Vec<G>,
    pub ctx: Ctx<G::ScalarField>,
    pub transcript: Option<Transcript>,
}

/// Run the prover for a program; panics inside the subject propagate (callers wrap in catch_unwind).
pub fn prove<G: AffineRepr>(
    prog: &Program,
    pc: &PedersenGens<G>,
    bp: &BulletproofGens<G>,
    seed: u64,
    rng_tag: &str,
    dev: Dev<G::ScalarField>,
) -> Proved<G> {
    let t = Transcript::new(LABEL);
    let (prover, ctx, commitments) = build_prover::<G, Transcript>(prog, pc, t, seed, dev);
    let mut rng = alphabet::chacha(seed, rng_tag);
    let r = prover.prove_and_return_transcript(&mut rng, bp);
    let mut ctx = take_ctx(ctx);
    finish_ctx(&mut ctx);
    match r {
        Ok((proof, tr)) => Proved {
            proof: proof.to_bytes().map_err(|e| format!("to_bytes: {:?}", e)),
            obj: Some(proof),
            commitments,
            ctx,
            transcript: Some(tr),
        },
        Err(e) => Proved { proof: Err(err_name(&e)), obj: None, commitments, ctx, transcript: None },
    }
}

/// `prove` with unwinds caught: Err carries the panic text. Checks other than C01 treat a
/// prover that fails or panics on an honest run as a failed precondition (C01's business).
pub fn try_prove<G: AffineRepr>(
    prog: &Program,
    pc: &PedersenGens<G>,
    bp: &BulletproofGens<G>,
    seed: u64,
    rng_tag: &str,
    dev: Dev<G::ScalarField>,
) -> Result<Proved<G>, String> {
    crate::evidence::guarded(|| prove::<G>(prog, pc, bp, seed, rng_tag, dev)).map_err(|m| format!("prove panicked: {}", m))
}

pub struct Verified<F: PrimeField> {
    pub result: Result<(), String>,
    pub ctx: Ctx<F>,
    pub transcript: Option<Transcript>,
}

pub fn verify<G: AffineRepr>(
    prog: &Program,
    pc: &PedersenGens<G>,
    bp: &BulletproofGens<G>,
    seed: u64,
    dev: Dev<G::ScalarField>,
    commitments: &[G],
    proof: &ark_bulletproofs::r1cs::R1CSProof<G>,
    label: &'static [u8],
) -> Verified<G::ScalarField> {
    let t = Transcript::new(label);
    let (verifier, ctx) = build_verifier::<G, Transcript>(prog, pc, t, seed, dev, commitments);
    let r = verifier.verify_and_return_transcript(proof, pc, bp);
    let mut ctx = take_ctx(ctx);
    finish_ctx(&mut ctx);
    match r {
        Ok(tr) => Verified { result: Ok(()), ctx, transcript: Some(tr) },
        Err(e) => Verified { result: Err(err_name(&e)), ctx, transcript: None },
    }
}
