use bpverif::props::common::{Opts, Tier};
use std::time::Duration;

#[global_allocator]
static ALLOC: bpverif::alloc_count::Counting = bpverif::alloc_count::Counting;

fn main() {
    bpverif::evidence::install_quiet_panic_hook();
    let args: Vec<String> = std::env::args().collect();
    if args.len() < 2 {
        eprintln!("usage: bpv <ID> [--tier quick|thorough] [--replay <file>] [--budget <secs>]");
        std::process::exit(2);
    }
    let id = args[1].to_uppercase();
    let mut tier = match std::env::var("VERIF_TIER").as_deref() {
        Ok("thorough") => Tier::Thorough,
        _ => Tier::Quick,
    };
    let mut replay = None;
    let mut budget = None;
    let mut extra: Vec<String> = vec![];
    let mut i = 2;
    while i < args.len() {
        match args[i].as_str() {
            "--tier" => {
                i += 1;
                tier = if args[i] == "thorough" { Tier::Thorough } else { Tier::Quick };
            }
            "--replay" => {
                i += 1;
                replay = Some(args[i].clone());
                std::env::set_var("BPV_REPLAY", "1");
            }
            "--budget" => {
                i += 1;
                budget = Some(args[i].parse::<u64>().expect("budget seconds"));
            }
            other => extra.push(other.to_string()),
        }
        i += 1;
    }
    let seed = std::env::var("VERIF_SEED").ok().and_then(|s| s.parse::<u64>().ok()).unwrap_or(1);
    let budget = Duration::from_secs(budget.unwrap_or(match tier {
        Tier::Quick => 150,
        Tier::Thorough => 5400,
    }));
    let o = Opts { tier, seed, replay, budget, extra };
    let code = match bpverif::evidence::guarded(|| bpverif::props::dispatch(&id, &o)) {
        Ok(c) => c,
        Err(m) => {
            eprintln!("machinery: the harness panicked outside a guarded case (not a verdict): {}", m);
            2
        }
    };
    std::process::exit(code);
}
