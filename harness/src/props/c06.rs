//! C06 Fiat-Shamir discipline: challenges bind all prior messages; roles stay in sync.
use crate::curves::{Cv, CURVES};
use crate::evidence::{Report, Violation};
use crate::program::{self, build_prover, build_verifier, take_ctx, Dev, Env, Program};
use crate::proofparts::Parts;
use crate::props::common::*;
use crate::recorder::{record_guarded, Event};
use crate::schedule::{expected_steps_ordered, main_events, run_monitor, run_monitor_prefix};
use crate::with_curve;
use ark_bulletproofs::r1cs::R1CSProof;
use merlin::Transcript;
use serde_json::{json, Value};
use std::collections::BTreeSet;

pub struct Out {
    pub events: u64,
    pub steps: u64,
    pub two_phase: bool,
    pub sep_payload: Vec<u8>,
    pub bad: Vec<(String, String)>,
    /// the honest proof was not accepted (C01's business): the follow-up challenge comparison is skipped
    pub precondition_failed: bool,
}

pub fn run_prog<G: Cv>(env: &Env<G>, prog: &Program, seed: u64) -> Out {
    let mut out = Out { events: 0, steps: 0, two_phase: !prog.closures.is_empty(), sep_payload: vec![], bad: vec![], precondition_failed: false };
    // ---- prover under recording
    let (pres, pev) = record_guarded(|| {
        let t = Transcript::new(program::LABEL);
        let (prover, ctx, comms) = build_prover::<G, Transcript>(prog, &env.pc, t, seed, Dev::None);
        let mut rng = crate::alphabet::chacha(seed, "c06");
        let r = prover.prove_and_return_transcript(&mut rng, &env.bp);
        let order = take_ctx(ctx).closure_order;
        (r.map(|(p, t)| (p.to_bytes().unwrap(), p, t)), comms, order)
    });
    let (bytes, proof, mut ptr, comms, order) = match pres {
        Ok((Ok((b, p, t)), c, o)) => (b, p, t, c, o),
        // no honest proof: completeness is C01's business; there is no run to monitor
        Ok((Err(_), _, _)) | Err(_) => {
            out.precondition_failed = true;
            return out;
        }
    };
    let parts = match Parts::<G>::parse(&bytes) {
        Some(p) => p,
        None => {
            out.bad.push(("proof parses".into(), "unparseable encoding".into()));
            return out;
        }
    };
    // ---- verifier under recording
    let (vres, vev) = record_guarded(|| {
        let t = Transcript::new(program::LABEL);
        let (verifier, ctx) = build_verifier::<G, Transcript>(prog, &env.pc, t, seed, Dev::None, &comms);
        let r = verifier.verify_and_return_transcript(&proof, &env.pc, &env.bp);
        let _ = take_ctx(ctx);
        r
    });
    let mut vtr: Option<Transcript> = match vres {
        Ok(Ok(t)) => Some(t),
        // an honest proof that is not accepted is C01's business; the transcript discipline is
        // still judged on everything both roles recorded
        Ok(Err(_)) => None,
        // a panicking verifier on an honest run is C01/C08's business
        Err(_) => {
            out.precondition_failed = true;
            return out;
        }
    };
    let steps = expected_steps_ordered::<G>(prog, &comms, &parts, &order);
    let (pmain, pm) = main_events(&pev);
    let (vmain, vm) = main_events(&vev);
    out.events = (pm.len() + vm.len()) as u64;
    out.steps = steps.len() as u64;
    // (1) monitor on both roles
    match run_monitor(&steps, &pm) {
        Ok(m) => {
            if let Some((_, _)) = m.labels.iter().find(|l| l.0.starts_with("dom-sep:1phase") || l.0.starts_with("dom-sep:2phase")) {
                let idx = m.labels.iter().position(|l| l.0.starts_with("dom-sep:1phase") || l.0.starts_with("dom-sep:2phase")).unwrap();
                out.sep_payload = pm[idx].data.clone();
            }
        }
        Err(e) => out.bad.push(("prover transcript follows the protocol order (every element absorbed before the challenges that must depend on it)".into(), e)),
    }
    if vtr.is_some() {
        if let Err(e) = run_monitor(&steps, &vm) {
            out.bad.push(("verifier transcript follows the protocol order".into(), e));
        }
    } else if let Err(e) = run_monitor_prefix(&steps, &vm) {
        // the verifier rejected the honest proof (C01's business) and may have stopped early:
        // whatever it did record must still follow the protocol order
        out.bad.push(("verifier transcript follows the protocol order (as far as it ran)".into(), e));
    }
    // (2) role synchrony: identical event sequences (kind, label, payload / challenge output)
    if vtr.is_some() && pm.len() != vm.len() {
        out.bad.push(("prover and verifier perform the same number of transcript operations".into(), format!("prover {} verifier {}", pm.len(), vm.len())));
    }
    for (i, (a, b)) in pm.iter().zip(vm.iter()).enumerate() {
        if a.is_challenge != b.is_challenge || a.label != b.label || a.data != b.data {
            out.bad.push((
                "prover and verifier transcript operations are identical".into(),
                format!("operation #{}: prover {} {:?} ({} bytes) vs verifier {} {:?} ({} bytes){}", i, if a.is_challenge { "challenge" } else { "append" }, a.label, a.data.len(), if b.is_challenge { "challenge" } else { "append" }, b.label, b.data.len(), if a.label == b.label && a.is_challenge == b.is_challenge { " - different bytes" } else { "" }),
            ));
            break;
        }
    }
    // (3) forks: prover only builds its RNG from the main transcript; verifier forks once, after
    // the last protocol operation, for one challenge (the batching weight)
    for (who, ev, main) in [("prover", &pev, pmain), ("verifier", &vev, vmain)] {
        let mut forks: Vec<(usize, u64)> = vec![];
        for (i, e) in ev.iter().enumerate() {
            match e {
                Event::Fork { parent, child } => {
                    if *parent != main {
                        out.bad.push((format!("{}: only the main transcript is forked", who), format!("fork of transcript {}", parent)));
                    }
                    forks.push((i, *child));
                }
                Event::Challenge { id, label, .. } if *id != main => {
                    if !forks.iter().any(|f| f.1 == *id) {
                        out.bad.push((format!("{}: challenges come from the main transcript or a fork of it", who), format!("challenge {:?} on unknown transcript {}", String::from_utf8_lossy(label), id)));
                    }
                }
                Event::Append { id, label, .. } if *id != main => {
                    out.bad.push((format!("{}: nothing is absorbed outside the main transcript", who), format!("append {:?} on transcript {}", String::from_utf8_lossy(label), id)));
                }
                _ => {}
            }
        }
        let last_main = ev.iter().rposition(|e| matches!(e, Event::Append { id, .. } | Event::Challenge { id, .. } if *id == main)).unwrap_or(0);
        if who == "prover" && !forks.is_empty() {
            out.bad.push(("prover squeezes no challenge from a fork".into(), format!("{} fork(s)", forks.len())));
        }
        if who == "verifier" {
            let fork_challenges = ev.iter().filter(|e| matches!(e, Event::Challenge { id, .. } if *id != main)).count();
            if forks.len() > 1 || fork_challenges > 1 {
                out.bad.push(("verifier forks at most once, for one challenge".into(), format!("{} forks, {} fork challenges", forks.len(), fork_challenges)));
            }
            for (at, _) in &forks {
                if *at < last_main {
                    out.bad.push(("the verifier's fork is taken after the last protocol operation (it must depend on every proof element)".into(), format!("fork at event {} but the main transcript still operates at event {}", at, last_main)));
                }
            }
        }
    }
    // (4) the returned transcripts drive identical follow-up challenges
    if let Some(vtr) = vtr.as_mut() {
        let mut a = [0u8; 32];
        let mut b = [0u8; 32];
        ptr.challenge_bytes(b"follow-up", &mut a);
        vtr.challenge_bytes(b"follow-up", &mut b);
        if a != b {
            out.bad.push(("returned transcripts yield the same next challenge".into(), "different".into()));
        }
    } else {
        out.precondition_failed = true;
    }
    out
}

/// The verifier absorbs what it *received*: for a proof with one element replaced, the
/// verifier's transcript must carry the replaced element's encoding at that element's step (up
/// to wherever the verifier stops).
pub fn run_deviated<G: Cv>(env: &Env<G>, prog: &Program, seed: u64) -> (u64, Vec<(String, String)>) {
    use crate::devspace::{apply, PDev, Slot};
    let mut bad = vec![];
    let Ok(pr) = program::try_prove::<G>(prog, &env.pc, &env.bp, seed, "c06-dev", Dev::None) else { return (0, bad) };
    let Ok(bytes) = pr.proof.clone() else { return (0, bad) };
    let Some(parts) = Parts::<G>::parse(&bytes) else { return (0, bad) };
    let mut devs: Vec<PDev> = vec![];
    for i in 0..11 {
        devs.push(PDev::PtAddB(Slot::Pt(i)));
    }
    for j in 0..parts.l.len() {
        devs.push(PDev::PtAddB(Slot::L(j)));
        devs.push(PDev::PtAddBb(Slot::R(j)));
    }
    for i in 0..3 {
        devs.push(PDev::ScAdd(Slot::Sc(i), 0));
    }
    let mut n = 0;
    for d in devs {
        let p2 = apply::<G>(&parts, &d, &env.pc, seed);
        let Ok(proof) = p2.to_proof() else { continue };
        let (res, ev) = record_guarded(|| {
            let t = Transcript::new(program::LABEL);
            let (verifier, ctx) = build_verifier::<G, Transcript>(prog, &env.pc, t, seed, Dev::None, &pr.commitments);
            let r = verifier.verify(&proof, &env.pc, &env.bp).is_ok();
            let order = take_ctx(ctx).closure_order;
            (r, order)
        });
        let (accepted, order) = match res {
            Ok(x) => x,
            Err(m) => {
                let _ = m; // panics on altered proofs are C08's business
                continue;
            }
        };
        n += 1;
        let steps = expected_steps_ordered::<G>(prog, &pr.commitments, &p2, &order);
        let (_, vm) = main_events(&ev);
        if let Err(e) = run_monitor_prefix(&steps, &vm) {
            bad.push((format!("the verifier absorbs the proof elements it received ({})", d.name()), e));
        }
        let _ = accepted;
    }
    (n, bad)
}

pub fn main(o: &Opts) -> i32 {
    let mut rep = Report::new("C06", o.tier.name(), o.seed, "model_checking");
    let mut progs: Vec<Program> = match o.tier {
        Tier::Quick => program_space2(3, 1, 1),
        Tier::Thorough => {
            let mut p = program_space(4, 1);
            let mut extra = program_space2(3, 2, 0);
            extra.retain(|p| p.closures.iter().any(|c| c.len() == 2));
            p.extend(extra);
            p
        }
    };
    progs.extend(size_family(if o.tier == Tier::Quick { 5 } else { 9 }).into_iter().map(|x| x.3));
    progs.extend(extra_programs());
    if let Some(path) = &o.replay {
        let v: Value = serde_json::from_str(&std::fs::read_to_string(path).unwrap()).unwrap();
        progs.retain(|p| Some(p.name().as_str()) == v["case"]["program"].as_str());
    }
    rep.bounds = json!({"programs": progs.len(), "space": if o.tier == Tier::Quick { "P(3,1) (second closures for phase-1 length <= 1) + S(5)" } else { "P(4,1) + P(3,2) + S(9)" },
        "histories": "every history of earlier same-thread calls (31 events incl. identity points, wrong lengths, too few generators, undecodable bytes, failing batch) of depth 1 (quick) / <= 2 (thorough) in front of 5 subjects",
        "deviated_proofs": "P(1,1) + small size family + extras: each point slot += B (R slots += B_blinding), each absorbed scalar += 1; the verifier's recorded transcript must carry the replaced element"});
    rep.curves = CURVES.iter().map(|s| s.to_string()).collect();
    rep.rule = "for every program an honest prover run and verifier run are recorded at the Merlin API; a monitor automaton (the protocol's fixed order with expected payloads computed from the program, the commitments and the decoded proof) consumes the main-transcript events of each role; then role synchrony, fork discipline and the follow-up challenge of the returned transcripts are checked".into();
    let start = rep.start;
    let mut skipped = 0u64;
    let mut sep1: BTreeSet<Vec<u8>> = BTreeSet::new();
    let mut sep2: BTreeSet<Vec<u8>> = BTreeSet::new();
    let mut states = 0u64;
    let mut transitions = 0u64;
    let mut validated = 0u64;
    for (ci, curve) in CURVES.iter().enumerate() {
        let sub: Vec<&Program> = progs.iter().enumerate().filter(|(i, p)| progs.len() < 5 || (o.tier == Tier::Thorough && p.p1.len() <= 2) || i % 3 == ci).map(|(_, p)| p).collect();
        let res: Vec<Option<Out>> = with_curve!(*curve, G => {
            let env = Env::<G>::new(64);
            par_run(&sub, start, o.budget, |_, p| run_prog::<G>(&env, p, o.seed))
        });
        for (p, r) in sub.iter().zip(res) {
            match r {
                None => skipped += 1,
                Some(out) => {
                    rep.evaluations += 1;
                    rep.nontrivial += 1;
                    states += out.steps + 1;
                    transitions += out.events;
                    validated += 2;
                    if out.two_phase {
                        sep2.insert(out.sep_payload.clone());
                    } else {
                        sep1.insert(out.sep_payload.clone());
                    }
                    rep.count(if out.two_phase { "2phase runs" } else { "1phase runs" }, 1);
                    if out.precondition_failed {
                        rep.count("honest proof not accepted (C01's business): follow-up comparison skipped", 1);
                    }
                    for (e, ob) in out.bad {
                        let case = json!({"curve": curve, "program": p.name(), "check": e});
                        rep.count("violation", 1);
                        rep.violation(Violation { key: case.clone(), case, expected: e, observed: ob, note: "transcript discipline".into() });
                    }
                }
            }
        }
    }
    // non-initial states: the same monitor after every history of earlier calls on the thread
    {
        use crate::history;
        let subjects: Vec<Program> = ["C M Ka", "C M Ka R[M Ka M]", "C Kd", "A A A R[A Kb]", "C C Xab R[Xca Kc]"].iter().map(|s| Program::parse(s).expect("subject")).collect();
        let hdepth = if o.tier == Tier::Quick { 1 } else { 2 };
        let mut hs: Vec<Vec<history::Prior>> = vec![];
        for d in 1..=hdepth {
            hs.extend(history::histories(d));
        }
        let mut tasks: Vec<(usize, &Program, &Vec<history::Prior>)> = vec![];
        for (hi, h) in hs.iter().enumerate() {
            for (si, sp) in subjects.iter().enumerate() {
                tasks.push((hi + si, sp, h));
            }
        }
        if let Some(path) = &o.replay {
            let v: Value = serde_json::from_str(&std::fs::read_to_string(path).unwrap()).unwrap();
            tasks.retain(|t| Some(t.1.name().as_str()) == v["case"]["program"].as_str() && Some(history::hist_name(t.2).as_str()) == v["case"]["history"].as_str());
        }
        for (ci, curve) in CURVES.iter().enumerate() {
            let sub: Vec<&(usize, &Program, &Vec<history::Prior>)> = tasks.iter().filter(|t| t.2.len() == 1 || t.0 % 3 == ci).collect();
            let res: Vec<Option<Result<Out, String>>> = with_curve!(*curve, G => {
                let env = Env::<G>::new(64);
                par_run(&sub, start, o.budget, |_, t| {
                    let b = history::base::<G>(&env, o.seed).map_err(|e| format!("history base: {}", e))?;
                    for ev in t.2.iter() {
                        history::play::<G>(&env, &b, ev, o.seed).map_err(|m| format!("{} panicked: {}", ev.name(), m))?;
                    }
                    Ok(run_prog::<G>(&env, t.1, o.seed))
                })
            });
            for (t, r) in sub.iter().zip(res) {
                match r {
                    None => skipped += 1,
                    Some(Err(_)) => {
                        rep.evaluations += 1;
                        rep.count("precondition: history not playable (a panic in an earlier call is C08's business)", 1);
                    }
                    Some(Ok(out)) => {
                        rep.evaluations += 1;
                        rep.nontrivial += 1;
                        states += out.steps + 1;
                        transitions += out.events;
                        validated += 2;
                        rep.count("runs after a history of earlier calls", 1);
                        if out.precondition_failed {
                            rep.count("honest proof not accepted (C01's business): follow-up comparison skipped", 1);
                        }
                        for (e, ob) in out.bad {
                            let case = json!({"curve": curve, "program": t.1.name(), "history": history::hist_name(t.2), "check": e});
                            rep.count("violation", 1);
                            rep.violation(Violation { key: case.clone(), case, expected: e, observed: ob, note: "transcript discipline after a history".into() });
                        }
                    }
                }
            }
        }
    }
    // deviated proofs: the verifier's transcript carries what it received
    {
        let mut dprogs: Vec<Program> = program_space2(1, 1, 0);
        dprogs.extend(size_family(if o.tier == Tier::Quick { 2 } else { 4 }).into_iter().map(|x| x.3));
        dprogs.extend(extra_programs());
        if let Some(path) = &o.replay {
            let v: Value = serde_json::from_str(&std::fs::read_to_string(path).unwrap()).unwrap();
            dprogs.retain(|p| Some(p.name().as_str()) == v["case"]["program"].as_str());
        }
        for (ci, curve) in CURVES.iter().enumerate() {
            let sub: Vec<&Program> = dprogs.iter().enumerate().filter(|(i, _)| dprogs.len() < 5 || o.tier == Tier::Thorough || i % 3 == ci).map(|(_, p)| p).collect();
            let res: Vec<Option<(u64, Vec<(String, String)>)>> = with_curve!(*curve, G => {
                let env = Env::<G>::new(64);
                par_run(&sub, start, o.budget, |_, p| run_deviated::<G>(&env, p, o.seed))
            });
            for (p, r) in sub.iter().zip(res) {
                match r {
                    None => skipped += 1,
                    Some((n, bad)) => {
                        rep.evaluations += n;
                        rep.count("verifier runs on proofs with one element replaced", n);
                        validated += n;
                        for (e, ob) in bad {
                            let case = json!({"curve": curve, "program": p.name(), "check": e});
                            rep.count("violation", 1);
                            rep.violation(Violation { key: case.clone(), case, expected: e, observed: ob, note: "transcript discipline".into() });
                        }
                    }
                }
            }
        }
    }
    // phase separators are unambiguous: no payload is used for both kinds of run
    if let Some(x) = sep1.intersection(&sep2).next() {
        if !x.is_empty() {
            let case = json!({"check": "phase domain separators differ between one-phase and two-phase runs"});
            rep.violation(Violation { key: case.clone(), case, expected: "disjoint separator payloads".into(), observed: format!("{:?} used for both", String::from_utf8_lossy(x)), note: "".into() });
        }
    }
    if skipped > 0 {
        rep.caps_hit.push(format!("time budget reached: {} programs skipped", skipped));
    }
    rep.states = Some(states);
    rep.transitions = Some(transitions);
    rep.traces_validated = Some(validated);
    rep.exhaustive = skipped == 0;
    rep.explanation = "states = monitor states visited (program x protocol step), transitions = recorded transcript events consumed; every trace is the implementation's own recorded trace (one prover and one verifier trace per program)".into();
    for p in pick(&progs) {
        rep.sample(json!({"program": p.name()}));
    }
    rep.assumptions = vec!["observation happens at the Merlin API boundary through the additive recording patch (vendor/merlin-rec); STROBE itself is trusted".into(), "matching is by kind and payload; label strings are pinned by C18, not here".into()];
    rep.finish()
}
