//! C13 Pedersen commitments equal v*B + r*B_blinding and are additively homomorphic.
use crate::alphabet::val;
pub const NAMES13: [&str; 12] = ["0", "1", "-1", "2", "2^64+1", "(p-1)/2", "p-2", "rho", "2^64", "2^128", "2^192", "2^192+7"];
use crate::curves::{ref_mul, Cv, CURVES};
use crate::evidence::{guarded, Report, Violation};
use crate::props::common::*;
use crate::with_curve;
use ark_bulletproofs::r1cs::Prover;
use ark_bulletproofs::PedersenGens;
use ark_ec::{AffineRepr, CurveGroup};
use ark_ff::Zero;
use merlin::Transcript;
use serde_json::{json, Value};

fn bases<G: Cv>() -> Vec<(&'static str, PedersenGens<G>)> {
    let d = PedersenGens::<G>::default();
    let two = G::ScalarField::from(2u64);
    let three = G::ScalarField::from(3u64);
    vec![
        ("default", d),
        ("swapped", PedersenGens { B: d.B_blinding, B_blinding: d.B }),
        ("2B,3Bb", PedersenGens { B: ref_mul(&d.B, &two).into_affine(), B_blinding: ref_mul(&d.B_blinding, &three).into_affine() }),
    ]
}

pub struct Out {
    pub evals: u64,
    pub hist: Vec<(&'static str, u64)>,
    pub bad: Vec<(Value, String, String)>,
}

pub fn run_curve<G: Cv>(seed: u64, tier: Tier, base_idx: usize) -> Out {
    let mut vals = val::<G::ScalarField>(seed);
    // limb-boundary values: 2^64, 2^128, 2^192, 2^192 + 7
    let two64 = G::ScalarField::from(u64::MAX) + G::ScalarField::from(1u64);
    vals.push(two64);
    vals.push(two64 * two64);
    vals.push(two64 * two64 * two64);
    vals.push(two64 * two64 * two64 + G::ScalarField::from(7u64));
    let n = vals.len();
    let mut out = Out { evals: 0, hist: vec![], bad: vec![] };
    let (mut c_eq, mut c_hom, mut c_scale, mut c_prover, mut c_id) = (0u64, 0u64, 0u64, 0u64, 0u64);
    for (bname, pg) in bases::<G>().into_iter().skip(base_idx).take(1) {
        // table of commitments and reference values
        let mut table = vec![];
        for i in 0..n {
            for j in 0..n {
                let key = json!({"curve": G::NAME, "bases": bname, "v": NAMES13[i], "r": NAMES13[j]});
                let got = match guarded(|| pg.commit(vals[i], vals[j])) {
                    Ok(g) => g,
                    Err(m) => {
                        out.bad.push((key, "commit returns".into(), format!("panicked: {}", m)));
                        table.push(G::zero());
                        continue;
                    }
                };
                let want = (ref_mul(&pg.B, &vals[i]) + ref_mul(&pg.B_blinding, &vals[j])).into_affine();
                out.evals += 1;
                c_eq += 1;
                if got != want {
                    out.bad.push((key.clone(), "commit(v,r) == v*B + r*B_blinding (reference double-and-add)".into(), "different point".into()));
                }
                if i == 0 && j == 0 {
                    c_id += 1;
                    if !got.is_zero() {
                        out.bad.push((key.clone(), "commit(0,0) is the identity".into(), "non-identity".into()));
                    }
                }
                // Prover::commit returns the same function of its inputs
                let mut tr = Transcript::new(b"c13");
                let mut prover = Prover::new(&pg, &mut tr);
                let (pv, _) = prover.commit(vals[i], vals[j]);
                out.evals += 1;
                c_prover += 1;
                if pv != want {
                    out.bad.push((key, "Prover::commit returns v*B + r*B_blinding".into(), "different point".into()));
                }
                table.push(got);
            }
        }
        // homomorphism over all pairs of pairs
        let pairs: Vec<(usize, usize)> = (0..n).flat_map(|i| (0..n).map(move |j| (i, j))).collect();
        for (a, (i1, j1)) in pairs.iter().enumerate() {
            for (b, (i2, j2)) in pairs.iter().enumerate() {
                let lhs = (table[a].into_group() + table[b]).into_affine();
                let rhs = pg.commit(vals[*i1] + vals[*i2], vals[*j1] + vals[*j2]);
                out.evals += 1;
                c_hom += 1;
                if lhs != rhs {
                    out.bad.push((
                        json!({"curve": G::NAME, "bases": bname, "law": "add", "p1": [NAMES13[*i1], NAMES13[*j1]], "p2": [NAMES13[*i2], NAMES13[*j2]]}),
                        "commit(v1,r1)+commit(v2,r2) == commit(v1+v2,r1+r2)".into(),
                        "different point".into(),
                    ));
                }
            }
        }
        // scaling
        let ss = if tier == Tier::Quick { 4 } else { n };
        for (a, (i, j)) in pairs.iter().enumerate() {
            for s in 0..ss {
                let s_idx = (s * 2 + 1) % n + if tier == Tier::Quick { 0 } else { 0 };
                let s_idx = if tier == Tier::Quick { s_idx } else { s };
                let lhs = ref_mul(&table[a], &vals[s_idx]).into_affine();
                let rhs = pg.commit(vals[s_idx] * vals[*i], vals[s_idx] * vals[*j]);
                out.evals += 1;
                c_scale += 1;
                if lhs != rhs {
                    out.bad.push((
                        json!({"curve": G::NAME, "bases": bname, "law": "scale", "s": NAMES13[s_idx], "p": [NAMES13[*i], NAMES13[*j]]}),
                        "s*commit(v,r) == commit(s*v, s*r)".into(),
                        "different point".into(),
                    ));
                }
            }
        }
    }
    out.hist = vec![("commit==reference", c_eq), ("Prover::commit==reference", c_prover), ("homomorphism", c_hom), ("scaling", c_scale), ("commit(0,0)==identity", c_id)];
    out
}

pub fn main(o: &Opts) -> i32 {
    let mut rep = Report::new("C13", o.tier.name(), o.seed, "exploration");
    rep.bounds = json!({"values": NAMES13, "base_pairs": ["default", "swapped", "2B,3Bb"], "pairs_of_pairs": 20736, "scalings": if o.tier == Tier::Quick { 4 } else { 8 }});
    rep.curves = CURVES.iter().map(|s| s.to_string()).collect();
    rep.rule = "full grid (v,r) in VAL x VAL for 3 base pairs x 3 curves against a double-and-add reference written in the harness; all pairs of pairs for additivity; scalings; Prover::commit for every pair; non-trivial = evaluations with (v,r) != (0,0)".into();
    use rayon::prelude::*;
    let tasks: Vec<(&str, usize)> = CURVES.iter().flat_map(|c| (0..3).map(move |b| (*c, b))).collect();
    let res: Vec<Out> = tasks.par_iter().map(|(c, b)| with_curve!(*c, G => run_curve::<G>(o.seed, o.tier, *b))).collect();
    for out in res {
        rep.evaluations += out.evals;
        rep.nontrivial += out.evals - 2;
        for (k, n) in out.hist {
            rep.count(k, n);
        }
        for (key, e, ob) in out.bad {
            rep.count("violation", 1);
            rep.violation(Violation { key: key.clone(), case: key, expected: e, observed: ob, note: "pedersen".into() });
        }
    }
    rep.exhaustive = true;
    rep.sample(json!({"curve": "zorro", "bases": "default", "v": "2^64+1", "r": "p-2"}));
    rep.sample(json!({"curve": "curve25519", "bases": "swapped", "law": "add", "p1": ["-1", "rho"], "p2": ["1", "(p-1)/2"]}));
    rep.assumptions = vec!["field and group addition/doubling of arkworks are trusted; scalar multiplication is re-derived by double-and-add".into(), "values outside VAL are not covered".into()];
    rep.finish()
}
