//! C03 verifier verdict equals the un-batched Bulletproofs verification relations.
use crate::curves::{Cv, CURVES};
use crate::devspace::{apply, singles, PDev};
use crate::evidence::{Report, Violation};
use crate::program::{self, build_verifier, finish_ctx, take_ctx, Dev, Env, Program};
use crate::proofparts::Parts;
use crate::props::common::*;
use crate::recorder::{record_guarded, scalar_from_challenge};
use crate::refprover::{run_devs, Labels, RunDev};
use crate::refverify::{refverify, static_part, Challenges, RefVerdict};
use crate::schedule::{expected_steps_ordered, run_monitor};
use crate::schedule::main_events;
use crate::with_curve;
use ark_bulletproofs::r1cs::R1CSProof;
use ark_ff::One;
use merlin::Transcript;
use serde_json::{json, Value};

pub struct Base<G: Cv> {
    pub name: String,
    pub prog: Program,
    pub comms: Vec<G>,
    pub parts: Parts<G>,
    pub kind: &'static str,
    /// order in which the real prover invoked the closures
    pub order: Vec<usize>,
}

#[derive(Debug)]
pub enum Out {
    Agree { accept: bool, why: String },
    Bad { expected: String, observed: String },
}

/// Judge one proof object against one statement.
pub fn judge<G: Cv>(env: &Env<G>, prog: &Program, comms: &[G], parts: &Parts<G>, seed: u64) -> Out {
    let proof = match parts.to_proof() {
        Ok(p) => p,
        Err(e) => return Out::Agree { accept: false, why: format!("does not decode ({})", e) },
    };
    let (res, ev) = record_guarded(|| {
        let t = Transcript::new(program::LABEL);
        let (verifier, ctx) = build_verifier::<G, Transcript>(prog, &env.pc, t, seed, Dev::None, comms);
        let r = verifier.verify(&proof, &env.pc, &env.bp).is_ok();
        let mut ctx = take_ctx(ctx);
        finish_ctx(&mut ctx);
        (r, ctx)
    });
    let (real_ok, vctx) = match res {
        Ok(x) => x,
        // a panicking verifier gives no verdict to compare; panics on hostile proofs are C08's business
        Err(m) => return Out::Agree { accept: false, why: format!("precondition: verify panicked ({})", m.chars().take(60).collect::<String>()) },
    };
    if !vctx.problems.is_empty() {
        // the verifier did not build the constraint system the reference model holds (C16's business)
        return Out::Agree { accept: real_ok, why: "precondition: verifier and reference model disagree on the variables handed out".into() };
    }
    let padded = {
        // the statement's gate count comes from the program, not from where the verifier stopped
        let (_, _, g, _) = prog.stats();
        g.max(1).next_power_of_two()
    };
    let (a_ok, shape) = static_part(parts, padded);
    if !a_ok || !shape {
        let want = RefVerdict { a: a_ok, shape, b: None, c: None };
        return if real_ok {
            Out::Bad { expected: format!("reject: {:?}", want), observed: "verify returned Ok".into() }
        } else {
            Out::Agree { accept: false, why: if !a_ok { "(a) identity point".into() } else { "round count".into() } }
        };
    }
    // challenges by squeeze position on the main transcript: [user...], y, z, u, x, w, k x u_j
    let (_, mev) = main_events(&ev);
    let chs: Vec<(String, G::ScalarField)> = mev.iter().filter(|e| e.is_challenge).map(|e| (e.label.clone(), scalar_from_challenge::<G::ScalarField>(&e.data))).collect();
    let nuser = vctx.challenges.len();
    let k = parts.l.len();
    if chs.len() != nuser + 5 + k {
        return if real_ok {
            Out::Bad { expected: format!("{} challenges (user {}, y z u x w, {} rounds)", nuser + 5 + k, nuser, k), observed: format!("verify returned Ok after squeezing {} challenges: the relations cannot be instantiated", chs.len()) }
        } else {
            Out::Bad { expected: "all challenges are derived when neither (a) nor the shape rule fails".into(), observed: format!("verify returned Err after only {} of {} challenges: rejects without a relation failing", chs.len(), nuser + 5 + k) }
        };
    }
    for (i, zc) in vctx.challenges.iter().enumerate() {
        if chs[i].1 != *zc {
            return Out::Bad { expected: "user challenge order".into(), observed: "recorded user challenges differ from the ones handed to the closures".into() };
        }
    }
    let c = &chs[nuser..];
    let ch = Challenges { y: c[0].1, z: c[1].1, u: c[2].1, x: c[3].1, w: c[4].1, rounds: c[5..].iter().map(|x| x.1).collect() };
    let want = refverify::<G>(parts, &vctx.refcs, comms, &env.pc, &env.bp, &ch);
    if want.accept() == real_ok {
        Out::Agree { accept: real_ok, why: format!("b={:?} c={:?}", want.b, want.c) }
    } else {
        Out::Bad { expected: format!("{} by the separate relations {:?}", if want.accept() { "accept" } else { "reject" }, want), observed: format!("verify returned {}", if real_ok { "Ok" } else { "Err" }) }
    }
}

/// Learn the labels and domain-separator payloads from two recorded honest runs of the real prover.
pub fn learn_labels<G: Cv>(env: &Env<G>, seed: u64) -> Result<Labels, String> {
    let mut keep = vec![];
    for s in ["T C M Kg M Kd", "C R[Z M Kg M Kd]"] {
        let prog = Program::parse(s).unwrap();
        let (res, ev) = record_guarded(|| {
            let t = Transcript::new(program::LABEL);
            let (prover, ctx, comms) = crate::program::build_prover::<G, Transcript>(&prog, &env.pc, t, seed, Dev::None);
            let mut rng = crate::alphabet::chacha(seed, "c03-learn");
            let r = prover.prove(&mut rng, &env.bp).map(|p| p.to_bytes().unwrap());
            let order = take_ctx(ctx).closure_order;
            (r, comms, order)
        });
        let (bytes, comms, order) = match res {
            Ok((Ok(b), c, o)) => (b, c, o),
            _ => return Err(format!("honest run of {} failed", s)),
        };
        let parts = Parts::<G>::parse(&bytes).unwrap();
        let steps = expected_steps_ordered::<G>(&prog, &comms, &parts, &order);
        let (_, mev) = main_events(&ev);
        match run_monitor(&steps, &mev) {
            Ok(m) => keep.push((m, mev)),
            Err(e) => return Err(format!("the honest run of {} does not have the protocol's structure: {} (C06 reports this)", s, e)),
        }
    }
    let refs: Vec<(&crate::schedule::Matched, &[crate::schedule::MainEvent])> = keep.iter().map(|(m, e)| (m, &e[..])).collect();
    let l = Labels::learn(&refs);
    if !l.complete() {
        return Err("label table incomplete".into());
    }
    Ok(l)
}

/// Every challenge the verifier squeezes for this proof, main transcript and forks, in order.
pub fn recorded_challenges<G: Cv>(env: &Env<G>, prog: &Program, comms: &[G], parts: &Parts<G>, seed: u64) -> Vec<G::ScalarField> {
    let Ok(proof) = parts.to_proof() else { return vec![] };
    let (_, ev) = record_guarded(|| {
        let t = Transcript::new(program::LABEL);
        let (verifier, ctx) = build_verifier::<G, Transcript>(prog, &env.pc, t, seed, Dev::None, comms);
        let r = verifier.verify(&proof, &env.pc, &env.bp).is_ok();
        let _ = take_ctx(ctx);
        r
    });
    ev.iter()
        .filter_map(|e| match e {
            crate::recorder::Event::Challenge { out, .. } => Some(scalar_from_challenge::<G::ScalarField>(out)),
            _ => None,
        })
        .collect()
}

pub fn make_bases<G: Cv>(env: &Env<G>, progs: &[&Program], seed: u64) -> Vec<Base<G>> {
    let mut out = vec![];
    for p in progs {
        let Ok(pr) = program::try_prove::<G>(p, &env.pc, &env.bp, seed, "c03", Dev::None) else { continue };
        if let Ok(b) = &pr.proof {
            out.push(Base { name: p.name(), prog: (*p).clone(), comms: pr.commitments.clone(), parts: Parts::<G>::parse(b).expect("parse"), kind: "honest", order: pr.ctx.closure_order.clone() });
        }
        let (w, _, _, _) = p.stats();
        if w > 0 && (out.len() % 3 == 1) {
            let Ok(pr) = program::try_prove::<G>(p, &env.pc, &env.bp, seed, "c03", Dev::Witness { idx: w - 1, delta: G::ScalarField::one() }) else { continue };
            if let Ok(b) = &pr.proof {
                out.push(Base { name: format!("{} [bad witness]", p.name()), prog: (*p).clone(), comms: pr.commitments.clone(), parts: Parts::<G>::parse(b).expect("parse"), kind: "bad-witness", order: pr.ctx.closure_order.clone() });
            }
        }
    }
    out
}

#[derive(Clone)]
pub enum DevSel {
    None,
    One(PDev),
    Two(PDev, PDev),
    /// the reference prover's honest proof (conformance of the reference prover itself)
    RefHonest,
    /// one deviation during the reference prover's run
    Run(RunDev),
    /// the reference prover with some groups of its random draws forced to zero (no message replaced)
    RunZero(u32),
    /// two scalar fields traded against each other with a weight taken from the challenges the
    /// verifier derived for the unmodified proof: slot i += 1, slot j += sign * c^(+-1)
    Weighted { i: usize, j: usize, c: usize, inv: bool, neg: bool },
}
const SC_SLOTS: [crate::devspace::Slot; 5] = [crate::devspace::Slot::Sc(0), crate::devspace::Slot::Sc(1), crate::devspace::Slot::Sc(2), crate::devspace::Slot::A, crate::devspace::Slot::B];
impl DevSel {
    pub fn name(&self) -> String {
        match self {
            DevSel::None => "none".into(),
            DevSel::One(d) => d.name(),
            DevSel::Two(a, b) => format!("{} ; {}", a.name(), b.name()),
            DevSel::RefHonest => "reference prover, no deviation".into(),
            DevSel::Run(d) => d.name(),
            DevSel::RunZero(m) => format!("reference prover with zero randomness for {{{}}}", crate::refprover::ZERO_GROUPS.iter().enumerate().filter(|(i, _)| m & (1 << i) != 0).map(|(_, n)| *n).collect::<Vec<_>>().join(",")),
            DevSel::Weighted { i, j, c, inv, neg } => format!("{} += 1 ; {} {}= (recorded challenge #{}){}", SC_SLOTS[*i].name(), SC_SLOTS[*j].name(), if *neg { "-" } else { "+" }, c, if *inv { "^-1" } else { "" }),
        }
    }
}

fn curve_work<G: Cv>(progs: &[&Program], o: &Opts, start: std::time::Instant, replay: &Option<Value>) -> Vec<(String, &'static str, String, Option<Out>)> {
    let env = Env::<G>::new(64);
    let bases = make_bases::<G>(&env, progs, o.seed);
    let mut tasks: Vec<(usize, DevSel)> = vec![];
    // smallest bases get the pair alphabet and depth 2
    let mut order: Vec<usize> = (0..bases.len()).collect();
    order.sort_by_key(|i| (bases[*i].parts.l.len(), bases[*i].prog.total_ops(), *i));
    let n_pairs = if o.tier == Tier::Quick { 4 } else { 48 };
    let n_depth2 = if o.tier == Tier::Quick { 1 } else { 5 };
    for (rank, bi) in order.iter().enumerate() {
        let b = &bases[*bi];
        tasks.push((*bi, DevSel::None));
        let ss = singles::<G>(&b.parts, rank < n_pairs);
        for d in &ss {
            tasks.push((*bi, DevSel::One(d.clone())));
        }
        let depth2_here = if o.tier == Tier::Quick { rank == 0 && G::NAME == crate::curves::CURVES[(o.seed % 3) as usize] } else { rank < n_depth2 || (rank >= 2 && rank < 2 + n_depth2 && b.parts.l.len() == 0) };
        if depth2_here {
            let s1 = singles::<G>(&b.parts, false);
            for (i, d1) in s1.iter().enumerate() {
                for d2 in s1.iter().skip(i + 1) {
                    // round edits change the slot set; pair them only with field edits applied first
                    tasks.push((*bi, DevSel::Two(d1.clone(), d2.clone())));
                }
            }
        }
    }
    // challenge-weighted trades between two scalar fields, on the smallest honest bases
    let n_weighted = if o.tier == Tier::Quick { 2 } else { 8 };
    let mut used = 0;
    for bi in order.iter() {
        let b = &bases[*bi];
        if b.kind != "honest" || used >= n_weighted {
            continue;
        }
        used += 1;
        let nch = 6 + b.parts.l.len() + 2; // generous upper bound; indices beyond the recording are skipped
        for i in 0..5 {
            for j in 0..5 {
                if i == j {
                    continue;
                }
                for c in 0..nch {
                    for inv in [false, true] {
                        for neg in [false, true] {
                            tasks.push((*bi, DevSel::Weighted { i, j, c, inv, neg }));
                        }
                    }
                }
            }
        }
    }
    // protocol-run deviations through the reference prover (honest bases only)
    let labels = match learn_labels::<G>(&env, o.seed) {
        Ok(l) => Some(l),
        Err(e) => {
            println!("C03 note ({}): protocol-run deviations skipped, the reference prover cannot learn the label table: {}", G::NAME, e);
            None
        }
    };
    for (bi, b) in bases.iter().enumerate() {
        if b.kind != "honest" || labels.is_none() {
            continue;
        }
        tasks.push((bi, DevSel::RefHonest));
        for d in run_devs(b.parts.l.len()) {
            tasks.push((bi, DevSel::Run(d)));
        }
    }
    // degenerate prover randomness: every subset of the draw groups (thorough) / subsets of size <= 2
    // and the full set (quick), on the smallest honest bases
    let n_zero = if o.tier == Tier::Quick { 3 } else { 10 };
    let mut used = 0;
    for bi in order.iter() {
        if bases[*bi].kind != "honest" || labels.is_none() || used >= n_zero {
            continue;
        }
        used += 1;
        for m in 1u32..1024 {
            if o.tier == Tier::Quick && m.count_ones() > 2 && m != 1023 {
                continue;
            }
            tasks.push((*bi, DevSel::RunZero(m)));
        }
    }
    if let Some(r) = replay {
        tasks.retain(|(bi, d)| Some(bases[*bi].name.as_str()) == r["case"]["base"].as_str() && Some(d.name().as_str()) == r["case"]["deviation"].as_str());
    }
    let res = par_run(&tasks, start, o.budget, |_, (bi, d)| {
        let b = &bases[*bi];
        if let DevSel::RefHonest | DevSel::Run(_) | DevSel::RunZero(_) = d {
            let rd = match d {
                DevSel::Run(x) => Some(x.clone()),
                _ => None,
            };
            let zm = match d {
                DevSel::RunZero(m) => *m,
                _ => 0,
            };
            let rp = match crate::evidence::guarded(|| crate::refprover::ref_prove_z::<G>(&env, labels.as_ref().unwrap(), &b.prog, o.seed, "c03-ref", rd, zm, &b.order)) {
                Ok(Ok(p)) => p,
                Ok(Err(e)) => return Out::Bad { expected: "reference prover runs".into(), observed: e },
                Err(m) => return Out::Bad { expected: "reference prover runs".into(), observed: format!("panicked: {}", m) },
            };
            let out = judge::<G>(&env, &b.prog, &rp.comms, &rp.parts, o.seed);
            if matches!(d, DevSel::RefHonest) {
                if let Out::Agree { accept: false, why } = &out {
                    if why.starts_with("does not decode") || why.starts_with("precondition") {
                        // the decoder rejects a well-formed encoding (C11's business), or the verifier
                        // diverges from the reference model (C16's business)
                        return Out::Agree { accept: false, why: if why.starts_with("precondition") { why.clone() } else { format!("precondition: {}", why) } };
                    }
                    // the reference prover follows Appendix A; if both the real verifier and the
                    // separate relations reject its honest proof the reference prover itself is at
                    // odds with the statement built by the roles (harness self-check, reported)
                    return Out::Bad { expected: "the reference prover's honest proof is accepted by the real verifier and by the separate relations".into(), observed: format!("both reject ({})", why) };
                }
            }
            return out;
        }
        if let DevSel::Weighted { i, j, c, inv, neg } = d {
            // challenges (main transcript and forks, in squeeze order) of the unmodified proof
            let chs = recorded_challenges::<G>(&env, &b.prog, &b.comms, &b.parts, o.seed);
            // skip user challenges: they precede y
            let nuser = b.prog.closures.iter().flatten().filter(|op| **op == crate::program::Op::Z).count();
            let Some(cv) = chs.get(nuser + *c) else { return Out::Agree { accept: false, why: "n/a (no such challenge)".into() } };
            let mut w = if *inv { match ark_ff::Field::inverse(cv) { Some(x) => x, None => return Out::Agree { accept: false, why: "n/a".into() } } } else { *cv };
            if *neg {
                w = -w;
            }
            let mut p2 = b.parts.clone();
            crate::devspace::set_sc(&mut p2, SC_SLOTS[*i], crate::devspace::get_sc(&b.parts, SC_SLOTS[*i]) + G::ScalarField::one());
            let cur = crate::devspace::get_sc(&p2, SC_SLOTS[*j]);
            crate::devspace::set_sc(&mut p2, SC_SLOTS[*j], cur + w);
            return judge::<G>(&env, &b.prog, &b.comms, &p2, o.seed);
        }
        let parts = match d {
            DevSel::RefHonest | DevSel::Run(_) | DevSel::RunZero(_) | DevSel::Weighted { .. } => unreachable!(),
            DevSel::None => b.parts.clone(),
            DevSel::One(d) => apply::<G>(&b.parts, d, &env.pc, o.seed),
            DevSel::Two(d1, d2) => {
                let p1 = apply::<G>(&b.parts, d1, &env.pc, o.seed);
                // the second deviation may name a round that the first removed
                let valid = singles::<G>(&p1, false).contains(d2);
                if valid {
                    apply::<G>(&p1, d2, &env.pc, o.seed)
                } else {
                    p1
                }
            }
        };
        let out = judge::<G>(&env, &b.prog, &b.comms, &parts, o.seed);
        if matches!(d, DevSel::None) && b.kind == "honest" {
            if let Out::Agree { accept: false, why } = &out {
                // real verifier and separate relations agree (both reject): completeness of this
                // honest proof is C01's business, not a C03 disagreement
                return Out::Agree { accept: false, why: format!("precondition: honest base rejected by both ({})", why) };
            }
        }
        out
    });
    tasks.iter().zip(res).map(|((bi, d), r)| (bases[*bi].name.clone(), bases[*bi].kind, d.name(), r)).collect()
}

pub fn main(o: &Opts) -> i32 {
    let mut rep = Report::new("C03", o.tier.name(), o.seed, "exploration");
    let replay: Option<Value> = o.replay.as_ref().map(|p| serde_json::from_str(&std::fs::read_to_string(p).unwrap()).unwrap());
    let mut progs: Vec<Program> = match o.tier {
        Tier::Quick => program_space2(1, 1, 0).into_iter().enumerate().filter(|(i, _)| i % 3 == 0).map(|(_, p)| p).collect(),
        Tier::Thorough => program_space2(2, 1, 0),
    };
    progs.extend(size_family(if o.tier == Tier::Quick { 2 } else { 5 }).into_iter().map(|x| x.3));
    if o.tier == Tier::Thorough {
        progs.extend(extra_programs());
    }
    progs.push(Program::parse("C C M Kd R[Z M Kc T] R[Z A Kd]").unwrap());
    if o.tier == Tier::Quick {
        // padded positions (gate counts that are not powers of two), in either phase and in both
        for (k, n1, n2) in [(Kind::M, 3, 0), (Kind::AOdd, 5, 0), (Kind::M, 2, 1), (Kind::M, 0, 3), (Kind::M, 3, 0), (Kind::M, 0, 3), (Kind::M, 3, 0), (Kind::M, 2, 1), (Kind::M, 0, 3)] {
            progs.push(size_program(k, n1, n2));
        }
    }
    rep.bounds = json!({"base_programs": progs.len(), "space": if o.tier == Tier::Quick { "every third program of P(1,1) + S(2) + padded sizes 3, 5, 2+1, 0+3 (+ bad-witness variants)" } else { "P(2,1) + S(5) + extras (+ bad-witness variants)" },
        "depth1": "every element of the algebraic deviation alphabet keeping |L|=|R| (identity, negation, +B, +B_blinding, (+T8, T8), scalar 0/neg/+delta, round edits); same-type copies and swaps on the smallest bases",
        "depth2": "all unordered pairs of depth-1 deviations on the smallest bases",
        "challenge_weighted": "on the smallest honest bases: every ordered pair of scalar fields (t_x, t_x_blinding, e_blinding, a, b): first += 1, second += +-c^(+-1) for every challenge c the verifier derived for the unmodified proof (forks included)",
        "zero_randomness": "the reference prover with every subset of its draw groups {iota, omicron, sigma, s_L, s_R, tau1, tau3, tau4, tau5, tau6} forced to zero (quick: subsets of size <= 2 and the full set) on the smallest honest bases: relations (b),(c) stay true while mandatory points may become the identity",
        "run_deviations": "for every honest base: the reference prover's own honest proof, and every single replacement of one message at the moment it is produced (each point slot: +B, +B_blinding, +G[0], negated, identity; each scalar slot: +1, 0), the rest of the run computed honestly"});
    rep.curves = CURVES.iter().map(|s| s.to_string()).collect();
    rep.rule = "for every base proof (honest and honest-from-bad-witness) and every deviation, the real verdict is compared with an independent verifier that evaluates (a) non-identity, (b) the committed evaluation relation and (c) the inner-product relation with explicit folding, under the challenges recorded from the real run; non-trivial = cases where the reference evaluated (b) and (c)".into();
    let start = rep.start;
    let mut skipped = 0u64;
    for (ci, curve) in CURVES.iter().enumerate() {
        if let Some(r) = &replay {
            if r["case"]["curve"].as_str() != Some(curve) {
                continue;
            }
        }
        let sub: Vec<&Program> = progs.iter().enumerate().filter(|(i, p)| replay.is_some() || (o.tier == Tier::Thorough && p.total_ops() <= 2) || i % 3 == ci).map(|(_, p)| p).collect();
        let res = with_curve!(*curve, G => curve_work::<G>(&sub, o, start, &replay));
        for (i, (bname, kind, dname, r)) in res.into_iter().enumerate() {
            let case = json!({"curve": curve, "base": bname, "deviation": dname});
            if i % 50021 == 7 {
                rep.sample(case.clone());
            }
            match r {
                None => skipped += 1,
                Some(Out::Agree { accept, why }) => {
                    rep.evaluations += 1;
                    let evaluated = why.starts_with("b=");
                    if evaluated {
                        rep.nontrivial += 1;
                    }
                    let depth = if dname == "none" || dname.starts_with("reference prover") { 0 } else if dname.contains(" ; ") { 2 } else { 1 };
                    let kind = if dname.contains("zero randomness") { "zero-randomness" } else if dname.contains("recorded challenge") { "challenge-weighted" } else if dname.starts_with("during the run") { "run-deviation" } else if dname.starts_with("reference prover") { "reference-prover" } else { kind };
                    rep.count(&format!("{}/depth{}/{}", kind, depth, if accept { "accept".to_string() } else if evaluated { format!("reject {}", why) } else { format!("reject early: {}", why.split(' ').next().unwrap_or("")) }), 1);
                }
                Some(Out::Bad { expected, observed }) => {
                    rep.evaluations += 1;
                    rep.count("violation", 1);
                    rep.violation(Violation { key: case.clone(), case, expected, observed, note: "combined check vs separate relations".into() });
                }
            }
        }
    }
    if skipped > 0 {
        rep.caps_hit.push(format!("time budget reached: {} cases skipped", skipped));
    }
    rep.exhaustive = skipped == 0;
    rep.assumptions = vec!["the r-weighted single check could differ from (b) and (c) only with probability ~1/|F|; treated as impossible".into(), "challenges are taken from the recorded verifier run (C06/C18 judge how they are derived)".into(), "|L| != |R| shapes belong to C08".into(), "statements range over points of the prime-order subgroup (commitments, Pedersen bases, generators); DESIGN 8.6 lesson 11 explains why the relations are not defined outside it".into()];
    rep.finish()
}
