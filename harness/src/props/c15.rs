//! C15 linear-combination arithmetic preserves meaning.
use crate::alphabet::{rho, val5};
use crate::curves::{Cv, CURVES};
use crate::evidence::{guarded, Report, Violation};
use crate::program::Env;
use crate::props::common::*;
use crate::with_curve;
use ark_bulletproofs::r1cs::{ConstraintSystem, LinearCombination, Prover, R1CSProof, Variable, Verifier};
use ark_ff::PrimeField;
use merlin::Transcript;
use serde_json::{json, Value};

/// variable table of the fixed circuit: V0, V1, L0, R0, O1, One
pub const VARS: [&str; 6] = ["V0", "V1", "L0", "R0", "O1", "One"];
/// scalar table: 0, -1, 2, rho
pub const SCAL: [&str; 4] = ["0", "-1", "2", "rho"];

#[derive(Clone, Debug, PartialEq, Eq, Hash)]
pub enum E {
    Var(usize),
    Const(usize),
    FromVar(usize),
    FromConst(usize),
    NegVar(usize),
    VarMul(usize, usize),
    VarMulU64(usize, u64),
    VarAdd(usize, Box<E>),
    VarSub(usize, Box<E>),
    LcNeg(Box<E>),
    LcMul(Box<E>, usize),
    LcMulU64(Box<E>, u64),
    LcAdd(Box<E>, Box<E>),
    LcSub(Box<E>, Box<E>),
    Collect(Vec<(usize, usize)>),
    CollectRef(Vec<(usize, usize)>),
    Default,
}

impl E {
    pub fn name(&self) -> String {
        match self {
            E::Var(v) => VARS[*v].to_string(),
            E::Const(c) => format!("F({})", SCAL[*c]),
            E::FromVar(v) => format!("LC::from({})", VARS[*v]),
            E::FromConst(c) => format!("LC::from(F({}))", SCAL[*c]),
            E::NegVar(v) => format!("-{}", VARS[*v]),
            E::VarMul(v, s) => format!("{}*F({})", VARS[*v], SCAL[*s]),
            E::VarMulU64(v, s) => format!("{}*{}u64", VARS[*v], s),
            E::VarAdd(v, e) => format!("({} + {})", VARS[*v], e.name()),
            E::VarSub(v, e) => format!("({} - {})", VARS[*v], e.name()),
            E::LcNeg(e) => format!("-({})", e.name()),
            E::LcMul(e, s) => format!("({})*F({})", e.name(), SCAL[*s]),
            E::LcMulU64(e, s) => format!("({})*{}u64", e.name(), s),
            E::LcAdd(a, b) => format!("({} + {})", a.name(), b.name()),
            E::LcSub(a, b) => format!("({} - {})", a.name(), b.name()),
            E::Collect(t) => format!("collect[{}]", t.iter().map(|(v, c)| format!("({},{})", VARS[*v], SCAL[*c])).collect::<Vec<_>>().join(",")),
            E::CollectRef(t) => format!("collect&[{}]", t.iter().map(|(v, c)| format!("({},{})", VARS[*v], SCAL[*c])).collect::<Vec<_>>().join(",")),
            E::Default => "LC::default()".into(),
        }
    }
    pub fn is_lc(&self) -> bool {
        !matches!(self, E::Var(_) | E::Const(_))
    }
}

pub enum Built<F: PrimeField> {
    V(Variable<F>),
    S(F),
    L(LinearCombination<F>),
}

/// Build the expression with the operator impl the operand *types* select.
pub fn build<F: PrimeField>(e: &E, vars: &[Variable<F>], sc: &[F]) -> Built<F> {
    use Built::*;
    match e {
        E::Var(v) => V(vars[*v]),
        E::Const(c) => S(sc[*c]),
        E::FromVar(v) => L(LinearCombination::from(vars[*v])),
        E::FromConst(c) => L(LinearCombination::from(sc[*c])),
        E::NegVar(v) => L(-vars[*v]),
        E::VarMul(v, s) => L(vars[*v] * sc[*s]),
        E::VarMulU64(v, s) => L(vars[*v] * *s),
        E::VarAdd(v, r) => L(match build(r, vars, sc) {
            V(x) => vars[*v] + x,
            S(x) => vars[*v] + x,
            L(x) => vars[*v] + x,
        }),
        E::VarSub(v, r) => L(match build(r, vars, sc) {
            V(x) => vars[*v] - x,
            S(x) => vars[*v] - x,
            L(x) => vars[*v] - x,
        }),
        E::LcNeg(a) => L(-lc_of(build(a, vars, sc))),
        E::LcMul(a, s) => L(lc_of(build(a, vars, sc)) * sc[*s]),
        E::LcMulU64(a, s) => L(lc_of(build(a, vars, sc)) * *s),
        E::LcAdd(a, r) => {
            let l = lc_of(build(a, vars, sc));
            L(match build(r, vars, sc) {
                V(x) => l + x,
                S(x) => l + x,
                L(x) => l + x,
            })
        }
        E::LcSub(a, r) => {
            let l = lc_of(build(a, vars, sc));
            L(match build(r, vars, sc) {
                V(x) => l - x,
                S(x) => l - x,
                L(x) => l - x,
            })
        }
        E::Collect(t) => L(t.iter().map(|(v, c)| (vars[*v], sc[*c])).collect()),
        E::CollectRef(t) => {
            let owned: Vec<(Variable<F>, F)> = t.iter().map(|(v, c)| (vars[*v], sc[*c])).collect();
            L(owned.iter().collect())
        }
        E::Default => L(LinearCombination::default()),
    }
}
fn lc_of<F: PrimeField>(b: Built<F>) -> LinearCombination<F> {
    match b {
        Built::L(l) => l,
        _ => unreachable!("left operand of an LC operator is an LC by construction"),
    }
}

/// The reference denotation: a recursive evaluator over field elements.
pub fn den<F: PrimeField>(e: &E, vals: &[F], sc: &[F]) -> F {
    match e {
        E::Var(v) | E::FromVar(v) => vals[*v],
        E::Const(c) | E::FromConst(c) => sc[*c],
        E::NegVar(v) => -vals[*v],
        E::VarMul(v, s) => vals[*v] * sc[*s],
        E::VarMulU64(v, s) => vals[*v] * F::from(*s),
        E::VarAdd(v, r) => vals[*v] + den(r, vals, sc),
        E::VarSub(v, r) => vals[*v] - den(r, vals, sc),
        E::LcNeg(a) => -den(a, vals, sc),
        E::LcMul(a, s) => den(a, vals, sc) * sc[*s],
        E::LcMulU64(a, s) => den(a, vals, sc) * F::from(*s),
        E::LcAdd(a, r) => den(a, vals, sc) + den(r, vals, sc),
        E::LcSub(a, r) => den(a, vals, sc) - den(r, vals, sc),
        E::Collect(t) | E::CollectRef(t) => t.iter().map(|(v, c)| vals[*v] * sc[*c]).sum(),
        E::Default => F::zero(),
    }
}

pub fn leaves() -> Vec<E> {
    let mut v: Vec<E> = (0..6).map(E::Var).collect();
    v.extend((0..4).map(E::Const));
    v
}
pub fn depth1() -> Vec<E> {
    let mut out = vec![E::Default];
    for v in 0..6 {
        out.push(E::FromVar(v));
        out.push(E::NegVar(v));
        out.push(E::VarMulU64(v, 3));
        for s in 0..4 {
            out.push(E::VarMul(v, s));
        }
        for l in leaves() {
            out.push(E::VarAdd(v, Box::new(l.clone())));
            out.push(E::VarSub(v, Box::new(l)));
        }
    }
    for c in 0..4 {
        out.push(E::FromConst(c));
    }
    for v in 0..6 {
        for c in 0..4 {
            out.push(E::Collect(vec![(v, c)]));
            out.push(E::CollectRef(vec![(v, c)]));
        }
        for w in 0..6 {
            out.push(E::Collect(vec![(v, 2), (w, 3)]));
            out.push(E::CollectRef(vec![(v, 3), (w, 1)]));
        }
    }
    out.push(E::Collect(vec![]));
    out.push(E::CollectRef(vec![]));
    out
}
/// representative depth-1 right operands: one per constructor kind
pub fn reps() -> Vec<E> {
    vec![
        E::Default,
        E::FromVar(0),
        E::FromVar(5),
        E::FromConst(3),
        E::NegVar(2),
        E::VarMul(0, 3),
        E::VarMul(4, 0),
        E::VarMulU64(3, 3),
        E::VarAdd(0, Box::new(E::Var(0))),
        E::VarAdd(1, Box::new(E::Const(3))),
        E::VarSub(2, Box::new(E::Var(3))),
        E::VarSub(0, Box::new(E::Const(1))),
        E::VarSub(5, Box::new(E::Var(5))),
        E::Collect(vec![(0, 2), (0, 3)]),
        E::CollectRef(vec![(4, 3), (5, 1)]),
        E::Collect(vec![]),
    ]
}
pub fn depth2(tier: Tier) -> Vec<E> {
    let d1 = depth1();
    let lefts: Vec<E> = match tier {
        Tier::Quick => d1.iter().enumerate().filter(|(i, _)| i % 5 == 0).map(|(_, e)| e.clone()).collect(),
        Tier::Thorough => d1.clone(),
    };
    let mut rights = leaves();
    rights.extend(reps());
    if tier == Tier::Thorough {
        rights.extend(d1.iter().enumerate().filter(|(i, _)| i % 7 == 3).map(|(_, e)| e.clone()));
    }
    let mut out = vec![];
    for a in &lefts {
        out.push(E::LcNeg(Box::new(a.clone())));
        out.push(E::LcMulU64(Box::new(a.clone()), 3));
        for s in 0..4 {
            out.push(E::LcMul(Box::new(a.clone()), s));
        }
        for r in &rights {
            out.push(E::LcAdd(Box::new(a.clone()), Box::new(r.clone())));
            out.push(E::LcSub(Box::new(a.clone()), Box::new(r.clone())));
        }
    }
    for v in 0..6 {
        for r in &lefts {
            out.push(E::VarAdd(v, Box::new(r.clone())));
            out.push(E::VarSub(v, Box::new(r.clone())));
        }
    }
    out
}

pub struct Setup<F: PrimeField> {
    pub vals: Vec<F>,
    pub sc: Vec<F>,
    pub blinds: [F; 2],
}
pub fn setup<F: PrimeField>(seed: u64) -> Setup<F> {
    let v5 = val5::<F>(seed);
    // V0 = rho, V1 = -1, gate0 = (2^64+1) * rho', gate1 = (-1) * 2 ... O1 = -2
    let l0 = v5[3];
    let r0 = rho::<F>(seed, "c15-r0");
    let (l1, r1) = (-F::one(), F::from(2u64));
    let vals = vec![v5[4], v5[2], l0, r0, l1 * r1, F::one()];
    let sc = vec![F::zero(), -F::one(), F::from(2u64), rho::<F>(seed, "c15-s")];
    let _ = (l1, r1);
    Setup { vals, sc, blinds: [rho::<F>(seed, "c15-b0"), rho::<F>(seed, "c15-b1")] }
}

/// Prove and verify the fixed circuit plus `constrain(e_i - c_i)` for each listed (tree, constant).
pub fn run_set<G: Cv>(env: &Env<G>, st: &Setup<G::ScalarField>, items: &[(&E, G::ScalarField)], seed: u64) -> Result<bool, String> {
    guarded(|| {
        let one = G::ScalarField::from(1u64);
        let mut pt = Transcript::new(b"c15");
        let mut prover = Prover::new(&env.pc, &mut pt);
        let (c0, v0) = prover.commit(st.vals[0], st.blinds[0]);
        let (c1, v1) = prover.commit(st.vals[1], st.blinds[1]);
        let (l0, r0, _o0) = prover.allocate_multiplier(Some((st.vals[2], st.vals[3]))).unwrap();
        let (_l1, _r1, o1) = prover.allocate_multiplier(Some((-one, G::ScalarField::from(2u64)))).unwrap();
        let pvars = [v0, v1, l0, r0, o1, Variable::One()];
        for (e, c) in items {
            let lc = lc_of(match build(e, &pvars, &st.sc) {
                Built::V(v) => Built::L(LinearCombination::from(v)),
                Built::S(s) => Built::L(LinearCombination::from(s)),
                l => l,
            });
            prover.constrain(lc - *c);
        }
        let mut rng = crate::alphabet::chacha(seed, "c15");
        let proof = prover.prove(&mut rng, &env.bp).map_err(|e| format!("prove: {:?}", e));
        let proof: R1CSProof<G> = match proof {
            Ok(p) => p,
            Err(_) => return false,
        };
        let mut vt = Transcript::new(b"c15");
        let mut verifier = Verifier::new(&mut vt);
        let w0 = verifier.commit(c0);
        let w1 = verifier.commit(c1);
        let (l0, r0, _) = verifier.allocate_multiplier(None).unwrap();
        let (_, _, o1) = verifier.allocate_multiplier(None).unwrap();
        let vvars = [w0, w1, l0, r0, o1, Variable::One()];
        for (e, c) in items {
            let lc = lc_of(match build(e, &vvars, &st.sc) {
                Built::V(v) => Built::L(LinearCombination::from(v)),
                Built::S(s) => Built::L(LinearCombination::from(s)),
                l => l,
            });
            verifier.constrain(lc - *c);
        }
        verifier.verify(&proof, &env.pc, &env.bp).is_ok()
    })
}

type Res = Vec<Option<Vec<(String, bool, String)>>>;
fn curve_work<G: Cv>(sub: &[&E], o: &Opts, start: std::time::Instant, deltas_n: usize) -> (Res, Res) {
    let env = Env::<G>::new(4);
    let st = setup::<G::ScalarField>(o.seed);
    // control: the fixed circuit without any expression constraint must prove and verify; if it
    // does not, completeness / commitments are broken (C01/C13's business) and the probes say nothing
    let commitments_ok = (0..2).all(|j| {
        use ark_ec::CurveGroup;
        let want = (crate::curves::ref_mul(&env.pc.B, &st.vals[j]) + crate::curves::ref_mul(&env.pc.B_blinding, &st.blinds[j])).into_affine();
        crate::evidence::guarded(|| {
            let mut t = Transcript::new(b"c15-control");
            let mut p = Prover::new(&env.pc, &mut t);
            p.commit(st.vals[j], st.blinds[j]).0
        })
        .map(|c| c == want)
        .unwrap_or(false)
    });
    if !commitments_ok || run_set::<G>(&env, &st, &[], o.seed) != Ok(true) {
        println!("C15 note ({}): the fixed circuit is not accepted or its commitments are not v*B + r*B_blinding (C01/C13's business); probes skipped on this curve", G::NAME);
        return (vec![], vec![]);
    }
    let chunks: Vec<Vec<&E>> = sub.chunks(32).map(|c| c.to_vec()).collect();
    let acc = par_run(&chunks, start, o.budget, |_, ch| {
        let items: Vec<(&E, G::ScalarField)> = ch.iter().map(|e| (*e, den(e, &st.vals, &st.sc))).collect();
        match run_set::<G>(&env, &st, &items, o.seed) {
            Ok(true) => ch.iter().map(|e| (e.name(), true, String::new())).collect(),
            _ => items
                .iter()
                .map(|it| match run_set::<G>(&env, &st, &[*it], o.seed) {
                    Ok(ok) => (it.0.name(), ok, String::new()),
                    Err(m) => (it.0.name(), false, format!("panicked: {}", m)),
                })
                .collect(),
        }
    });
    let rej = par_run(sub, start, o.budget, |_, e| {
        let d = [G::ScalarField::from(1u64), rho::<G::ScalarField>(o.seed, "c15-d")];
        (0..deltas_n)
            .map(|i| {
                let c = den(e, &st.vals, &st.sc) + d[i];
                match run_set::<G>(&env, &st, &[(*e, c)], o.seed) {
                    Ok(ok) => (e.name(), !ok, format!("delta {}", if i == 0 { "1" } else { "rho" })),
                    Err(m) => (e.name(), false, format!("panicked: {}", m)),
                }
            })
            .collect()
    });
    (acc, rej)
}

pub fn main(o: &Opts) -> i32 {
    let mut rep = Report::new("C15", o.tier.name(), o.seed, "exploration");
    let mut trees: Vec<E> = leaves();
    trees.extend(depth1());
    let n01 = trees.len();
    trees.extend(depth2(o.tier));
    if let Some(path) = &o.replay {
        let v: Value = serde_json::from_str(&std::fs::read_to_string(path).unwrap()).unwrap();
        let name = v["case"]["tree"].as_str().unwrap().to_string();
        trees.retain(|t| t.name() == name);
    }
    rep.bounds = json!({"leaves": VARS, "scalars": SCAL, "trees_depth_le_1": n01, "trees_total": trees.len(),
        "constructors": ["From<Variable>", "From<F>", "-Variable", "Variable*F", "Variable*u64", "Variable+L", "Variable-L", "-LC", "LC*F", "LC*u64", "LC+L", "LC-L", "collect (var,coef)", "collect &(var,coef)", "default"],
        "right_operand_types": ["Variable", "F", "LinearCombination"]});
    rep.curves = CURVES.iter().map(|s| s.to_string()).collect();
    rep.rule = "every expression tree up to the depth bound, built with the operator impl its operand types select; accept: circuit + constrain(e - den(e)) proves and verifies (32 trees per proof, failing batches re-run tree by tree); reject: circuit + constrain(e - (den(e)+delta)) is rejected, one proof per tree and delta; non-trivial = distinct trees".into();
    let start = rep.start;
    let mut skipped = 0u64;
    let deltas_n = if o.tier == Tier::Quick { 1 } else { 2 };
    for (ci, curve) in CURVES.iter().enumerate() {
        let sub: Vec<&E> = trees.iter().enumerate().filter(|(i, _)| o.tier == Tier::Thorough && *i < n01 || i % 3 == ci || trees.len() < 5).map(|(_, e)| e).collect();
        let (acc, rej) = with_curve!(*curve, G => curve_work::<G>(&sub, o, start, deltas_n));
        for (kind, res) in [("accept-at-value", acc), ("reject-off-value", rej)] {
            for r in res {
                match r {
                    None => skipped += 1,
                    Some(v) => {
                        for (name, good, extra) in v {
                            rep.evaluations += 1;
                            if kind == "accept-at-value" {
                                rep.nontrivial += 1;
                            }
                            if good {
                                rep.count(kind, 1);
                            } else {
                                let case = json!({"curve": curve, "tree": name, "probe": kind, "detail": extra});
                                rep.count("violation", 1);
                                rep.violation(Violation { key: json!({"tree": name, "probe": kind}), case, expected: if kind == "accept-at-value" { "accepted".into() } else { "rejected".into() }, observed: if kind == "accept-at-value" { "not accepted".into() } else { "accepted".into() }, note: "expression meaning".into() });
                            }
                        }
                    }
                }
            }
        }
    }
    if skipped > 0 {
        rep.caps_hit.push(format!("time budget reached: {} work items skipped", skipped));
    }
    rep.exhaustive = skipped == 0;
    for t in pick(&trees) {
        rep.sample(json!({"tree": t.name()}));
    }
    rep.sample(json!({"tree": trees[n01 + trees.len().saturating_sub(n01) / 3 % trees.len().max(1)].name()}));
    rep.assumptions = vec!["coefficients limited to {0,-1,2,rho} and the fixed circuit's values".into()];
    rep.finish()
}
