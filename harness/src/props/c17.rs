//! C17 too few generators gives a clean error at exactly the padded-size threshold.
use crate::curves::{Cv, CURVES};
use crate::evidence::{guarded, Report, Violation};
use crate::program::{self, build_verifier, Dev, Program};
use crate::props::common::*;
use crate::with_curve;
use ark_bulletproofs::r1cs::{batch_verify, R1CSProof};
use ark_bulletproofs::{BulletproofGens, PedersenGens};
use merlin::Transcript;
use serde_json::{json, Value};

pub const GENS_ERR: &str = "InvalidGeneratorsLength";

#[derive(Clone, Debug)]
pub struct Case {
    pub curve: &'static str,
    pub kind: Kind,
    pub n1: usize,
    pub n2: usize,
    pub caps: Vec<usize>,
}

#[derive(Debug, Default)]
pub struct Out {
    pub proves: u64,
    pub verifies: u64,
    pub batches: u64,
    pub prove_err: u64,
    pub verify_err: u64,
    pub bad: Vec<(Value, String, String)>,
}

pub fn run_case<G: Cv>(c: &Case, seed: u64) -> Out {
    let mut out = Out::default();
    let pc = PedersenGens::<G>::default();
    let prog: Program = size_program(c.kind, c.n1, c.n2);
    let t = (c.n1 + c.n2).max(1).next_power_of_two();
    // the threshold concerns `gens_capacity` only: vary how the object came about (party capacity
    // 1..3; every other one grown from a smaller object by increase_capacity)
    let gens: Vec<BulletproofGens<G>> = c
        .caps
        .iter()
        .enumerate()
        .map(|(i, cap)| {
            if i % 2 == 1 && *cap > 0 {
                let mut g = BulletproofGens::new(*cap / 2, 1 + i % 3);
                g.increase_capacity(*cap);
                g
            } else {
                BulletproofGens::new(*cap, 1 + i % 3)
            }
        })
        .collect();
    let mut reference: Option<(Vec<u8>, Vec<G>)> = None;
    let mut reference_obj: Option<R1CSProof<G>> = None;
    for (ci, cap) in c.caps.iter().enumerate() {
        out.proves += 1;
        let key = json!({"curve": c.curve, "kind": format!("{:?}", c.kind), "n1": c.n1, "n2": c.n2, "role": "prover", "cap": cap});
        let r = guarded(|| program::prove::<G>(&prog, &pc, &gens[ci], seed, "c17", Dev::None));
        let pr = match r {
            Ok(p) => p,
            Err(m) => {
                out.bad.push((key, "prove returns without panicking".into(), format!("panicked: {}", m)));
                continue;
            }
        };
        if *cap < t {
            out.prove_err += 1;
            match &pr.proof {
                Err(e) if e == GENS_ERR => {}
                other => out.bad.push((key, format!("Err(InvalidGeneratorsLength) since cap {} < {}", cap, t), format!("{:?}", other.as_ref().map(|b| format!("Ok({} bytes)", b.len()))))),
            }
        } else {
            match &pr.proof {
                Ok(b) => match &reference {
                    None => {
                        reference = Some((b.clone(), pr.commitments.clone()));
                        reference_obj = pr.obj.clone();
                    }
                    Some((rb, _)) => {
                        if rb != b {
                            out.bad.push((key, "proof bytes independent of surplus capacity".into(), "bytes differ from the proof made with the smallest sufficient capacity".into()));
                        }
                    }
                },
                Err(e) if e == GENS_ERR => out.bad.push((key, format!("no insufficient-generators error since cap {} >= {}", cap, t), format!("Err({})", e))),
                Err(_) => {} // another failure of proving is not the capacity threshold's business
            }
        }
    }
    let Some((bytes, comms)) = reference else { return out };
    let _ = &bytes;
    let Some(proof) = reference_obj else { return out };
    // verdict with the largest capacity: the reference the others must not differ from
    let mut reference_verdict: [Option<Result<(), String>>; 2] = [None, None];
    for (ci, cap) in c.caps.iter().enumerate().rev() {
        for batch in [false, true] {
            let key = json!({"curve": c.curve, "kind": format!("{:?}", c.kind), "n1": c.n1, "n2": c.n2, "role": if batch { "batch_verify" } else { "verifier" }, "cap": cap});
            let r: Result<Result<(), String>, String> = guarded(|| {
                if batch {
                    let mut tr = Transcript::new(program::LABEL);
                    let (v, _ctx) = build_verifier::<G, &mut Transcript>(&prog, &pc, &mut tr, seed, Dev::None, &comms);
                    let mut rng = crate::alphabet::chacha(seed, "c17-batch");
                    batch_verify(&mut rng, vec![(v, &proof)], &pc, &gens[ci]).map_err(|e| program::err_name(&e))
                } else {
                    program::verify::<G>(&prog, &pc, &gens[ci], seed, Dev::None, &comms, &proof, program::LABEL).result
                }
            });
            if batch {
                out.batches += 1
            } else {
                out.verifies += 1
            }
            match r {
                Err(m) => out.bad.push((key, "returns without panicking".into(), format!("panicked: {}", m))),
                Ok(res) => {
                    if *cap < t {
                        out.verify_err += 1;
                        if res != Err(GENS_ERR.to_string()) {
                            out.bad.push((key, format!("Err(InvalidGeneratorsLength) since cap {} < {}", cap, t), format!("{:?}", res)));
                        }
                    } else {
                        let slot = &mut reference_verdict[batch as usize];
                        if res == Err(GENS_ERR.to_string()) {
                            out.bad.push((key, format!("no insufficient-generators error since cap {} >= {}", cap, t), format!("{:?}", res)));
                        } else if let Some(r) = slot {
                            if *r != res {
                                out.bad.push((key, format!("same verdict as with the largest capacity ({:?})", r), format!("{:?}", res)));
                            }
                        } else {
                            *slot = Some(res);
                        }
                    }
                }
            }
        }
    }
    out
}

pub fn main(o: &Opts) -> i32 {
    let mut rep = Report::new("C17", o.tier.name(), o.seed, "exploration");
    let (nmax, caps, kinds): (usize, Vec<usize>, Vec<Kind>) = match o.tier {
        Tier::Quick => (9, vec![0, 1, 2, 3, 4, 5, 7, 8, 9, 15, 16, 17, 31, 32, 33], vec![Kind::M]),
        Tier::Thorough => (12, vec![0, 1, 2, 3, 4, 5, 6, 7, 8, 9, 15, 16, 17, 31, 32, 33, 64], vec![Kind::M, Kind::X, Kind::AOdd, Kind::APairs]),
    };
    let mut cs = vec![];
    for curve in CURVES {
        for k in &kinds {
            for n1 in 0..=nmax {
                for n2 in 0..=nmax {
                    cs.push(Case { curve, kind: *k, n1, n2, caps: caps.clone() });
                }
            }
        }
    }
    if let Some(path) = &o.replay {
        let v: Value = serde_json::from_str(&std::fs::read_to_string(path).unwrap()).unwrap();
        let k = &v["case"];
        cs.retain(|c| c.curve == k["curve"].as_str().unwrap() && c.n1 as u64 == k["n1"].as_u64().unwrap() && c.n2 as u64 == k["n2"].as_u64().unwrap());
    }
    rep.bounds = json!({"n1": format!("0..={}", nmax), "n2": format!("0..={}", nmax), "capacities": caps, "generator_objects": "party capacity 1..3 by position; every other object grown from half its capacity by increase_capacity", "kinds": kinds.iter().map(|k| format!("{:?}", k)).collect::<Vec<_>>()});
    rep.curves = CURVES.iter().map(|s| s.to_string()).collect();
    rep.rule = "full grid (phase-1 gates x phase-2 gates x prover capacity x verifier capacity): prove with every capacity, verify and batch_verify the proof of a sufficient prover with every capacity; threshold T = next_pow2(max(n1+n2,1)); non-trivial = (grid point, capacity, role) evaluations".into();
    let start = rep.start;
    let mut skipped = 0;
    for curve in CURVES {
        let sub: Vec<&Case> = cs.iter().filter(|c| c.curve == curve).collect();
        let res = with_curve!(curve, G => par_run(&sub, start, o.budget, |_, c| run_case::<G>(c, o.seed)));
        for r in res {
            match r {
                None => skipped += 1,
                Some(out) => {
                    let n = out.proves + out.verifies + out.batches;
                    rep.evaluations += n;
                    rep.nontrivial += n;
                    rep.count("prove:insufficient->error", out.prove_err);
                    rep.count("prove:sufficient->ok", out.proves - out.prove_err);
                    rep.count("verify/batch:insufficient->error", out.verify_err);
                    rep.count("verify/batch:sufficient->ok", out.verifies + out.batches - out.verify_err);
                    for (key, e, ob) in out.bad {
                        rep.count("violation", 1);
                        rep.violation(Violation { key: key.clone(), case: key, expected: e, observed: ob, note: "capacity threshold".into() });
                    }
                }
            }
        }
    }
    if skipped > 0 {
        rep.caps_hit.push(format!("time budget reached: {} grid points skipped", skipped));
    }
    rep.exhaustive = skipped == 0;
    for c in pick(&cs) {
        rep.sample(json!({"curve": c.curve, "n1": c.n1, "n2": c.n2, "kind": format!("{:?}", c.kind), "capacities": c.caps}));
    }
    let code = rep.finish();
    code
}
