//! C14 zorro is a prime-order curve whose order is its declared scalar field modulus.
use crate::alphabet::val;
use crate::curves::ref_mul;
use crate::evidence::{Report, Violation};
use crate::props::common::*;
use ark_bulletproofs::curve::zorro::{Fq, Fr, G1Affine, Parameters};
use ark_ec::models::CurveConfig;
use ark_ec::short_weierstrass::SWCurveConfig;
use ark_ec::{AffineRepr, CurveGroup};
use ark_ff::{BigInteger, Field, One, PrimeField, Zero};
use num_bigint::BigUint;
use rayon::prelude::*;
use serde_json::json;

fn big<F: PrimeField>(f: &F) -> BigUint {
    BigUint::from_bytes_le(&f.into_bigint().to_bytes_le())
}
fn modulus<F: PrimeField>() -> BigUint {
    BigUint::from_bytes_le(&F::MODULUS.to_bytes_le())
}
fn isqrt(n: &BigUint) -> BigUint {
    n.sqrt()
}

/// every decimal literal of >= 1 digit following `marker` in a source file
fn literal_after(src: &str, marker: &str) -> Option<BigUint> {
    let i = src.find(marker)? + marker.len();
    let rest = &src[i..];
    let start = rest.find('"')? + 1;
    let end = start + rest[start..].find('"')?;
    BigUint::parse_bytes(rest[start..end].as_bytes(), 10)
}

fn miller_rabin_witness(n: &BigUint, base: u64) -> bool {
    // true if `base` proves n composite
    let one = BigUint::one();
    let nm1 = n - &one;
    let mut d = nm1.clone();
    let mut s = 0u32;
    while (&d % 2u32).is_zero() {
        d >>= 1;
        s += 1;
    }
    let a = BigUint::from(base) % n;
    if a.is_zero() {
        return false;
    }
    let mut x = a.modpow(&d, n);
    if x == one || x == nm1 {
        return false;
    }
    for _ in 1..s {
        x = (&x * &x) % n;
        if x == nm1 {
            return false;
        }
    }
    true
}

pub fn main(o: &Opts) -> i32 {
    let mut rep = Report::new("C14", o.tier.name(), o.seed, "other");
    let mut obligations = 0u64;
    let mut bad: Vec<(String, String, String)> = vec![];
    let q = modulus::<Fq>();
    let r = modulus::<Fr>();
    // ---- declared constants: source literals vs compiled values
    let read = |f: &str| std::fs::read_to_string(format!("/repo/src/curve/zorro/{}", f)).unwrap_or_default();
    let (fq_src, g1_src) = (read("fq.rs"), read("g1.rs"));
    let lit = [
        ("base field modulus (fq.rs)", literal_after(&fq_src, "#[modulus"), q.clone()),
        ("COEFF_A (g1.rs)", literal_after(&g1_src, "const COEFF_A"), big(&<Parameters as SWCurveConfig>::COEFF_A)),
        ("COEFF_B (g1.rs)", literal_after(&g1_src, "const COEFF_B"), big(&<Parameters as SWCurveConfig>::COEFF_B)),
        ("G_GENERATOR_X (g1.rs)", literal_after(&g1_src, "pub const G_GENERATOR_X"), big(&G1Affine::generator().x)),
        ("G_GENERATOR_Y (g1.rs)", literal_after(&g1_src, "pub const G_GENERATOR_Y"), big(&G1Affine::generator().y)),
    ];
    for (name, src, compiled) in lit.iter() {
        obligations += 1;
        match src {
            Some(v) if v == compiled => {}
            other => bad.push((format!("source literal of {} equals the compiled constant", name), format!("{}", compiled), format!("{:?}", other.as_ref().map(|v| v.to_string())))),
        }
    }
    // ---- declared scalar modulus = 2^255 - 19 = modulus of Fr
    obligations += 1;
    let want_r = (BigUint::one() << 255u32) - BigUint::from(19u32);
    if r != want_r {
        bad.push(("scalar field modulus = 2^255 - 19".into(), want_r.to_string(), r.to_string()));
    }
    obligations += 1;
    if <Parameters as CurveConfig>::COFACTOR != &[1u64] || <Parameters as CurveConfig>::COFACTOR_INV != Fr::one() {
        bad.push(("declared cofactor = 1".into(), "[1]".into(), format!("{:?}", <Parameters as CurveConfig>::COFACTOR)));
    }
    // ---- generator on the curve with the declared coefficients
    obligations += 1;
    let g = G1Affine::generator();
    let (a, b) = (<Parameters as SWCurveConfig>::COEFF_A, <Parameters as SWCurveConfig>::COEFF_B);
    if g.y * g.y != g.x * g.x * g.x + a * g.x + b || g.is_zero() {
        bad.push(("generator satisfies y^2 = x^3 + a x + b".into(), "on curve".into(), "off curve".into()));
    }
    // ---- r * G = O, G != O (reference double-and-add over the declared modulus bits)
    obligations += 1;
    {
        let mut acc = <G1Affine as AffineRepr>::Group::zero();
        for bit in Fr::MODULUS.to_bits_be() {
            acc = acc + acc;
            if bit {
                acc = acc + g;
            }
        }
        if !acc.is_zero() {
            bad.push(("r * G = O".into(), "identity".into(), "not the identity".into()));
        }
    }
    // ---- cofactor one: every h >= 1 with h*r inside the Hasse interval
    obligations += 1;
    let two_sqrt_q = isqrt(&(&q * 4u32)) + 1u32; // ceil(2 sqrt q) upper bound
    let lo = &q + 1u32 - &two_sqrt_q;
    let hi = &q + 1u32 + &two_sqrt_q;
    let mut hs = vec![];
    let mut h = BigUint::one();
    let mut hasse_candidates = 0u64;
    loop {
        let hr = &h * &r;
        if hr > hi {
            break;
        }
        hasse_candidates += 1;
        if hr >= lo {
            hs.push(h.to_string());
        }
        h += 1u32;
    }
    if hs != vec!["1".to_string()] {
        bad.push(("the only multiple of r inside the Hasse interval is r itself (group order = r, cofactor 1)".into(), "[1]".into(), format!("{:?}", hs)));
    }
    // ---- primality of q and r: exhaustive search for a compositeness witness below the bounds
    let (trial_bound, mr_bound): (u64, u64) = match o.tier {
        Tier::Quick => (1 << 20, 2_000),
        Tier::Thorough => (1 << 24, 63_000),
    };
    for (name, n) in [("q", &q), ("r", &r)] {
        obligations += 1;
        let div: Option<u64> = (2..trial_bound).into_par_iter().find_first(|d| (n % *d).is_zero());
        if let Some(d) = div {
            bad.push((format!("{} has no divisor below {}", name, trial_bound), "none".into(), format!("{}", d)));
        }
        obligations += 1;
        let wit: Option<u64> = (2..=mr_bound).into_par_iter().find_first(|b| miller_rabin_witness(n, *b));
        if let Some(b) = wit {
            bad.push((format!("no Miller-Rabin base in 2..={} proves {} composite", mr_bound, name), "none".into(), format!("base {}", b)));
        }
    }
    // ---- mul_by_a agrees with multiplication by the declared coefficient on the structured set
    let span: u64 = if o.tier == Tier::Quick { 1 << 18 } else { 1 << 22 };
    let mut xs: Vec<Fq> = vec![];
    for i in 0..=span {
        xs.push(Fq::from(i));
        xs.push(-Fq::from(i));
    }
    for i in 0..256u32 {
        let p = Fq::from(2u64).pow([i as u64]);
        xs.push(p);
        xs.push(p + Fq::one());
        xs.push(p - Fq::one());
    }
    for v in val::<Fq>(o.seed) {
        xs.push(v);
    }
    // the same kind of structure in *representation* space: raw (Montgomery) representatives r with
    // j*r next to a multiple of q or of 2^256, j = 1..6 (where a hand-rolled multiply-by-small-constant
    // would lose a carry or skip a reduction), and next to powers of two
    {
        let two256 = BigUint::one() << 256u32;
        let mut centres: Vec<BigUint> = vec![];
        for j in 1u32..=6 {
            for m in 0u32..=j {
                centres.push((&q * m) / j);
                centres.push((&two256 * m) / j);
            }
        }
        for i in (0..256u32).step_by(8) {
            centres.push(BigUint::one() << i);
        }
        centres.push(BigUint::one() << 255u32);
        let half: u64 = if o.tier == Tier::Quick { 1 << 9 } else { 1 << 12 };
        for c in centres {
            for k in 0..=2 * half {
                let v = &c + k;
                if v < BigUint::from(half) {
                    continue;
                }
                let r = v - half;
                if r >= q {
                    continue;
                }
                let mut limbs = [0u64; 4];
                for (i, d) in r.to_u64_digits().iter().enumerate() {
                    limbs[i] = *d;
                }
                xs.push(Fq::new_unchecked(ark_ff::BigInt::<4>(limbs)));
            }
        }
    }
    obligations += 1;
    let mism: Option<&Fq> = xs.par_iter().find_first(|x| <Parameters as SWCurveConfig>::mul_by_a(**x) != a * **x);
    if let Some(x) = mism {
        bad.push(("mul_by_a(x) = COEFF_A * x on the structured set".into(), "equal".into(), format!("differs at x = {}", big(x))));
    }
    let mul_evals = xs.len() as u64;
    // ---- scalar arithmetic mod r is the group's arithmetic
    let mut sc: Vec<Fr> = val::<Fr>(o.seed);
    let half = Fr::from(2u64).inverse().unwrap();
    sc.extend(vec![-Fr::one() - Fr::one(), half, -half, half + Fr::one()]);
    for i in 0..52u64 {
        sc.push(crate::alphabet::rho::<Fr>(o.seed, &format!("c14-{}", i)));
    }
    sc.truncate(if o.tier == Tier::Quick { 40 } else { 64 });
    let pts: Vec<<G1Affine as AffineRepr>::Group> = sc.par_iter().map(|s| ref_mul(&g, s)).collect();
    obligations += 1;
    let pairs: Vec<(usize, usize)> = (0..sc.len()).flat_map(|i| (0..sc.len()).map(move |j| (i, j))).collect();
    let law_bad: Option<&(usize, usize)> = pairs.par_iter().find_first(|(i, j)| {
        let add_ok = pts[*i] + pts[*j] == ref_mul(&g, &(sc[*i] + sc[*j]));
        let mul_ok = ref_mul(&pts[*j].into_affine(), &sc[*i]) == ref_mul(&g, &(sc[*i] * sc[*j]));
        // the crate's own scalar multiplication agrees with the reference
        let lib_ok = g.mul_bigint(sc[*i].into_bigint()) == pts[*i];
        !(add_ok && mul_ok && lib_ok)
    });
    if let Some((i, j)) = law_bad {
        bad.push(("[s]G + [t]G = [s+t mod r]G and [s]([t]G) = [st mod r]G".into(), "hold".into(), format!("fails for alphabet pair ({}, {})", i, j)));
    }
    let law_evals = pairs.len() as u64;

    rep.evaluations = mul_evals + law_evals + hasse_candidates + (trial_bound + mr_bound) * 2;
    rep.nontrivial = mul_evals + law_evals;
    rep.extra.insert("obligations".into(), json!(obligations));
    rep.extra.insert("discharged".into(), json!(obligations - bad.len() as u64));
    rep.bounds = json!({"mul_by_a_set": format!("{{0..{}}} u {{q-{}..q-1}} u {{2^i, 2^i+-1 : i<256}} u VAL u raw Montgomery representatives around m*q/j, m*2^256/j (j<=6) and powers of two ({} elements)", span, span, mul_evals), "scalar_alphabet": sc.len(), "scalar_pairs": law_evals,
        "hasse_multiples_examined": hasse_candidates, "trial_division_bound": trial_bound, "miller_rabin_bases": format!("2..={}", mr_bound)});
    rep.count("mul_by_a evaluations", mul_evals);
    rep.count("scalar law pairs", law_evals);
    rep.count("obligations", obligations);
    rep.rule = "finite obligations on the compiled constants (cross-checked with the source literals) plus bounded enumerations: mul_by_a on a structured set, scalar laws on all alphabet pairs, every multiple of r below the Hasse upper bound, every trial divisor and Miller-Rabin base below the stated bounds".into();
    rep.explanation = "group order: r is prime (no witness below the bounds), r*G = O with G != O so r divides the order, and r is the only multiple of r in the Hasse interval, hence the order is exactly r (cofactor 1). mul_by_a is compared exhaustively on the structured set only, not on the whole field. Primality is 'no compositeness witness below the bound', not an unconditional proof.".into();
    rep.exhaustive = true;
    rep.sample(json!({"obligation": "r * G = O", "r": r.to_string()}));
    rep.sample(json!({"obligation": "h * r in Hasse interval", "interval": [lo.to_string(), hi.to_string()], "found": hs}));
    rep.sample(json!({"mul_by_a at": "q - 1"}));
    for (e, want, ob) in bad {
        let key = json!({"obligation": e});
        rep.violation(Violation { key: key.clone(), case: key, expected: want, observed: ob, note: "zorro constants".into() });
    }
    rep.assumptions = vec!["arkworks field arithmetic for Fq/Fr is trusted; group scalar multiplication is re-derived by double-and-add".into(), "Hasse's theorem".into()];
    rep.finish()
}
