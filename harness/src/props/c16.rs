//! C16 prover and verifier assign identical variables for identical call sequences.
//! Explicit-state exploration with stateright; every transition is taken on the real code.
use crate::curves::{Cv, CURVES};
use crate::evidence::{guarded, Report, Violation};
use crate::program::{self, build_prover, build_verifier, take_ctx, Dev, Env, Op, Program, Shape};
use crate::props::common::*;
use crate::with_curve;
use ark_bulletproofs::r1cs::{R1CSProof, Variable};
use merlin::Transcript;
use serde_json::{json, Value};
use stateright::{Checker, HasDiscoveries, Model, Property};
use std::hash::{Hash, Hasher};

// op codes of the history alphabet
pub const C: u8 = 0;
pub const A: u8 = 1;
pub const AN: u8 = 2;
pub const M: u8 = 3;
pub const MN: u8 = 4;
pub const X: u8 = 5;
pub const K: u8 = 6;
pub const P2: u8 = 7; // phase switch (first) / start of the next closure (second)
pub const CD: u8 = 8; // commit the same opening again

pub fn to_program(h: &[u8]) -> Program {
    let mut p = Program::default();
    let mut cur: Option<Vec<Op>> = None;
    for c in h {
        let op = match *c {
            C => Op::C,
            CD => Op::CD,
            A => Op::A,
            AN => Op::AN,
            M => Op::M,
            MN => Op::MN,
            X => program::X1,
            K => Op::K(Shape::D),
            P2 => {
                if let Some(b) = cur.take() {
                    p.closures.push(b);
                }
                cur = Some(vec![]);
                continue;
            }
            _ => unreachable!(),
        };
        match cur.as_mut() {
            Some(b) => b.push(op),
            None => p.p1.push(op),
        }
    }
    if let Some(b) = cur.take() {
        p.closures.push(b);
    }
    p
}
pub fn from_program(p: &Program) -> Option<Vec<u8>> {
    let code = |o: &Op| -> Option<u8> {
        Some(match o {
            Op::C => C,
            Op::CD => CD,
            Op::C0 => C,
            Op::A => A,
            Op::AN => AN,
            Op::M => M,
            Op::MN => MN,
            Op::X(..) => X,
            Op::K(_) => K,
            _ => return None,
        })
    };
    let mut h = vec![];
    for o in &p.p1 {
        h.push(code(o)?);
    }
    for c in &p.closures {
        h.push(P2);
        for o in c {
            h.push(code(o)?);
        }
    }
    Some(h)
}

pub struct Shared<G: Cv> {
    pub env: Env<G>,
    pub donor: R1CSProof<G>,
    pub seed: u64,
}

/// Result of executing one history on the real prover and verifier.
#[derive(Debug, Default, Clone)]
pub struct Exec {
    pub problems: Vec<String>,
    pub missing: bool,
    /// handles + multipliers_len of the last executed call, prover side / verifier side
    pub last_p: Option<(Vec<String>, usize)>,
    pub last_v: Option<(Vec<String>, usize)>,
    pub proved: bool,
    /// the subject invoked the closures in registration order
    pub in_order: bool,
}

fn hs<F: ark_ff::PrimeField>(v: &[Variable<F>]) -> Vec<String> {
    v.iter().map(|x| format!("{:?}", x).replace("Multiplier", "")).collect()
}

pub fn exec<G: Cv>(sh: &Shared<G>, h: &[u8]) -> Exec {
    let prog = to_program(h);
    let mut out = Exec::default();
    let two = !prog.closures.is_empty();
    let r = guarded(|| {
        let mut problems = vec![];
        // ---- prover
        let (prover, pctx, comms) = build_prover::<G, Transcript>(&prog, &sh.env.pc, Transcript::new(program::LABEL), sh.seed, Dev::None);
        let mut proof_bytes = None;
        if two {
            let mut rng = crate::alphabet::chacha(sh.seed, "c16");
            match prover.prove(&mut rng, &sh.env.bp) {
                Ok(p) => proof_bytes = Some(p),
                Err(e) => {
                    let missing = pctx.borrow().missing;
                    let txt = program::err_name(&e);
                    if !(missing && txt == "MissingAssignment") {
                        problems.push(format!("prove returned Err({})", txt));
                    }
                }
            }
        } else {
            drop(prover);
        }
        let pctx = take_ctx(pctx);
        if two && pctx.missing && proof_bytes.is_some() {
            // the closure returned the error; prove must not have produced a proof
            problems.push("prove returned Ok although a randomized closure failed with MissingAssignment".into());
        }
        // ---- verifier
        let (verifier, vctx) = build_verifier::<G, Transcript>(&prog, &sh.env.pc, Transcript::new(program::LABEL), sh.seed, Dev::None, &comms);
        let mut verdict = None;
        if two {
            let proof = proof_bytes.clone().unwrap_or_else(|| sh.donor.clone());
            verdict = Some(verifier.verify(&proof, &sh.env.pc, &sh.env.bp).is_ok());
        } else {
            drop(verifier);
        }
        let vctx = take_ctx(vctx);
        (problems, pctx, vctx, proof_bytes.is_some(), verdict)
    });
    let (mut problems, pctx, vctx, proved, verdict) = match r {
        Ok(x) => x,
        Err(m) => {
            out.problems.push(format!("panicked: {}", m));
            return out;
        }
    };
    out.proved = proved;
    out.missing = pctx.missing;
    for p in &pctx.problems {
        problems.push(format!("prover: {}", p));
    }
    for p in &vctx.problems {
        problems.push(format!("verifier: {}", p));
    }
    if let Some(w) = &pctx.missing_wrong {
        problems.push(format!("prover: expected Err(MissingAssignment) for an absent assignment, got {}", w));
    }
    // call-by-call agreement between the roles (up to where the prover's history ended)
    for (i, pc) in pctx.trace.iter().enumerate() {
        match vctx.trace.get(i) {
            None => {
                if !two || proved {
                    problems.push(format!("call #{}: verifier made fewer calls than the prover", i));
                }
                break;
            }
            Some(vc) => {
                if pc.handles != vc.handles {
                    problems.push(format!("call #{} {}: prover returned {:?}, verifier {:?}", i, pc.op.name(), pc.handles, vc.handles));
                }
                if pc.mult_len != vc.mult_len {
                    problems.push(format!("call #{} {}: multipliers_len prover {} verifier {}", i, pc.op.name(), pc.mult_len, vc.mult_len));
                }
            }
        }
    }
    if !pctx.missing {
        if pctx.trace.len() != vctx.trace.len() {
            problems.push(format!("prover made {} calls, verifier {}", pctx.trace.len(), vctx.trace.len()));
        }
        if two {
            if pctx.closures_run != prog.closures.len() || vctx.closures_run != prog.closures.len() {
                problems.push(format!("closures run: prover {} verifier {} expected {}", pctx.closures_run, vctx.closures_run, prog.closures.len()));
            }
            let _ = verdict; // acceptance of the honest proof is C01's business
        }
    }
    out.in_order = pctx.closure_order.windows(2).all(|w| w[0] < w[1]) && vctx.closure_order.windows(2).all(|w| w[0] < w[1]);
    out.last_p = pctx.trace.last().map(|c| (hs(&c.handles), c.mult_len));
    out.last_v = vctx.trace.last().map(|c| (hs(&c.handles), c.mult_len));
    out.problems = problems;
    out
}

fn ended(h: &[u8]) -> bool {
    matches!(h.last(), Some(&AN) | Some(&MN))
}
fn phases(h: &[u8]) -> usize {
    h.iter().filter(|c| **c == P2).count()
}
fn len_phase2(h: &[u8]) -> usize {
    match h.iter().position(|c| *c == P2) {
        None => 0,
        Some(i) => h[i..].iter().filter(|c| **c != P2).count(),
    }
}
fn len_phase1(h: &[u8]) -> usize {
    match h.iter().position(|c| *c == P2) {
        None => h.len(),
        Some(i) => i,
    }
}

fn enabled(h: &[u8], max1: usize, max2: usize, two_phase: bool, out: &mut Vec<u8>) {
    if ended(h) {
        return;
    }
    let ph = phases(h);
    if ph == 0 {
        if h.len() < max1 {
            out.extend_from_slice(&[C, CD, A, AN, M, MN, X, K]);
        }
        if two_phase {
            out.push(P2);
        }
    } else {
        if len_phase2(h) < max2 {
            out.extend_from_slice(&[A, AN, M, MN, X, K]);
        }
        if ph < 2 && *h.last().unwrap() != P2 {
            out.push(P2);
        }
    }
}

// ---------------------------------------------------------------------------------------------
// Unmerged tree model

pub struct AllocTree {
    pub max1: usize,
    pub max2: usize,
    pub two_phase: bool,
}

/// fold the abstract allocator over a history; returns the final abstract state and the handles
/// it predicts for every call
pub fn abs_fold(h: &[u8]) -> (MState, Vec<(u8, u8, Vec<String>)>) {
    let mut s = MState::init();
    let mut calls = vec![];
    for a in h {
        let ph = s.phase;
        s = abs_step(&s, *a);
        calls.push((*a, ph, s.expect.clone()));
    }
    (s, calls)
}

/// spec-level invariants of the abstract allocator (checked by stateright on every state)
pub fn abs_invariants(h: &[u8]) -> bool {
    let (s, calls) = abs_fold(h);
    // pending index names an existing gate; cleared right after a phase switch
    if let Some(i) = s.pending {
        if i >= s.gates {
            return false;
        }
    }
    if h.last() == Some(&P2) && phases(h) == 1 && s.pending.is_some() {
        return false;
    }
    // no handle is ever issued twice; a Right(i) from a single allocation follows a Left(i) from a
    // single allocation of the same phase
    let mut seen = std::collections::HashSet::new();
    let mut open: Option<(String, u8)> = None;
    for (a, ph, hs) in &calls {
        for x in hs {
            if !seen.insert(x.clone()) {
                return false;
            }
        }
        if *a == A {
            let x = &hs[0];
            if let Some(rest) = x.strip_prefix("Right(") {
                match &open {
                    Some((l, lph)) if *l == format!("Left({}", rest) && lph == ph => {}
                    _ => return false,
                }
                open = None;
            } else {
                open = Some((x.clone(), *ph));
            }
        }
    }
    true
}

impl Model for AllocTree {
    type State = Vec<u8>;
    type Action = u8;
    fn init_states(&self) -> Vec<Self::State> {
        vec![vec![]]
    }
    fn actions(&self, s: &Self::State, actions: &mut Vec<u8>) {
        enabled(s, self.max1, self.max2, self.two_phase, actions);
    }
    fn next_state(&self, s: &Self::State, a: u8) -> Option<Self::State> {
        let mut n = s.clone();
        n.push(a);
        Some(n)
    }
    fn properties(&self) -> Vec<Property<Self>> {
        vec![
            Property::always("abstract allocator invariants", |_, s: &Vec<u8>| abs_invariants(s)),
            Property::sometimes("a MissingAssignment history is reached", |_, s: &Vec<u8>| ended(s)),
            Property::sometimes("a single allocation after a pending one is reached", |_, s: &Vec<u8>| s.windows(2).any(|w| w == [A, A])),
            Property::sometimes("depth bound of phase 1 is reached", |m: &Self, s: &Vec<u8>| len_phase1(s) == m.max1),
            Property::sometimes("impossible (keeps the search going)", |_, _| false),
        ]
    }
}

// ---------------------------------------------------------------------------------------------
// Merged model: states identified by the abstract allocator key (+ depth)

#[derive(Clone, Debug)]
pub struct MState {
    pub gates: u16,
    pub pending: Option<u16>,
    pub commits: u16,
    pub phase: u8,
    pub closures: u8,
    pub depth: u16,
    pub ended: bool,
    /// representative history (not part of the identity)
    pub hist: Vec<u8>,
    /// what the abstract allocator predicts the last call returned
    pub expect: Vec<String>,
}
impl Hash for MState {
    fn hash<H: Hasher>(&self, h: &mut H) {
        (self.gates, self.pending, self.commits, self.phase, self.closures, self.depth, self.ended).hash(h)
    }
}
impl PartialEq for MState {
    fn eq(&self, o: &Self) -> bool {
        (self.gates, self.pending, self.commits, self.phase, self.closures, self.depth, self.ended)
            == (o.gates, o.pending, o.commits, o.phase, o.closures, o.depth, o.ended)
    }
}

impl MState {
    pub fn init() -> MState {
        MState { gates: 0, pending: None, commits: 0, phase: 0, closures: 0, depth: 0, ended: false, hist: vec![], expect: vec![] }
    }
}

/// the abstract allocator: a counter, an optional pending index, a commitment counter, a phase bit
pub fn abs_step(s: &MState, a: u8) -> MState {
    let mut n = s.clone();
    n.hist.push(a);
    n.depth += 1;
    n.expect = vec![];
    match a {
        C | CD => {
            n.expect = vec![format!("Committed({})", n.commits)];
            n.commits += 1;
        }
        A => match n.pending {
            None => {
                n.expect = vec![format!("Left({})", n.gates)];
                n.pending = Some(n.gates);
                n.gates += 1;
            }
            Some(i) => {
                n.expect = vec![format!("Right({})", i)];
                n.pending = None;
            }
        },
        M | X => {
            let i = n.gates;
            n.expect = vec![format!("Left({})", i), format!("Right({})", i), format!("Output({})", i)];
            n.gates += 1;
        }
        K => {}
        AN | MN => {
            n.ended = true;
        }
        P2 => {
            if n.phase == 0 {
                n.phase = 1;
                n.pending = None;
            }
            n.closures += 1;
        }
        _ => unreachable!(),
    }
    n
}

pub struct AllocMerged {
    pub max_depth: usize,
}
impl Model for AllocMerged {
    type State = MState;
    type Action = u8;
    fn init_states(&self) -> Vec<MState> {
        vec![MState::init()]
    }
    fn actions(&self, s: &MState, actions: &mut Vec<u8>) {
        if s.ended || s.hist.len() >= self.max_depth {
            return;
        }
        if s.phase == 0 {
            actions.extend_from_slice(&[C, CD, A, AN, M, MN, X, K, P2]);
        } else {
            actions.extend_from_slice(&[A, AN, M, MN, X, K]);
            if s.closures < 2 && *s.hist.last().unwrap() != P2 {
                actions.push(P2);
            }
        }
    }
    fn next_state(&self, s: &MState, a: u8) -> Option<MState> {
        Some(abs_step(s, a))
    }
    fn properties(&self) -> Vec<Property<Self>> {
        vec![
            Property::always("abstract allocator invariants", |_, s: &MState| abs_invariants(&s.hist)),
            Property::sometimes("impossible (keeps the search going)", |_, _| false),
        ]
    }
}

pub fn merged_ok<G: Cv>(sh: &Shared<G>, s: &MState) -> Vec<String> {
    let e = exec::<G>(sh, &s.hist);
    let mut problems = e.problems.clone();
    if s.hist.is_empty() || s.ended || *s.hist.last().unwrap() == P2 || !e.in_order {
        // (the abstract model lists the calls in registration order; if the subject invokes the
        // closures in another order the call-by-call comparisons above still apply, the
        // last-call prediction does not)
        return problems;
    }
    for (who, last) in [("prover", &e.last_p), ("verifier", &e.last_v)] {
        match last {
            Some((h, len)) => {
                if *h != s.expect {
                    problems.push(format!("{}: last call returned {:?}, abstract key predicts {:?}", who, h, s.expect));
                }
                // (the gate *count* is only required to be identical on both roles - compared in
                // `exec` - not to equal the abstract counter)
                let _ = len;
            }
            None => problems.push(format!("{}: no call recorded", who)),
        }
    }
    problems
}

// ---------------------------------------------------------------------------------------------

/// Closing probes: for a history that leaves a single allocation open at the end of a phase,
/// constrain that gate's right wire and output to zero directly after the opening call
/// (accepted), and to 1 (rejected). Returns problems.
pub fn closing_probe<G: Cv>(sh: &Shared<G>, h: &[u8]) -> Option<Vec<String>> {
    if h.iter().any(|c| *c == AN || *c == MN) {
        return None;
    }
    // find, per phase, the call index of the A that is still open when the phase ends
    let mut open_at: Vec<usize> = vec![];
    let mut s = MState::init();
    let mut last_open: Option<usize> = None;
    for (i, a) in h.iter().enumerate() {
        let before_phase = s.phase;
        let was_pending = s.pending;
        s = abs_step(&s, *a);
        if *a == A {
            last_open = if was_pending.is_none() { Some(i) } else { None };
        }
        if *a == P2 && before_phase == 0 {
            if was_pending.is_some() {
                open_at.push(last_open.unwrap());
            }
            last_open = None;
        }
    }
    if s.pending.is_some() {
        open_at.push(last_open.unwrap());
    }
    if open_at.is_empty() {
        return None;
    }
    // build the program with K(R), K(O) inserted after each opening call
    let mut ops: Vec<(u8, Option<Op>)> = vec![];
    let mut kpos = vec![];
    let mut kcount = 0usize;
    for (i, a) in h.iter().enumerate() {
        ops.push((*a, None));
        if *a == K {
            kcount += 1;
        }
        if open_at.contains(&i) {
            ops.push((K, Some(Op::K(Shape::R))));
            ops.push((K, Some(Op::K(Shape::O))));
            kpos.push(kcount);
            kpos.push(kcount + 1);
            kcount += 2;
        }
    }
    let mut prog = Program::default();
    let mut cur: Option<Vec<Op>> = None;
    for (c, special) in &ops {
        if *c == P2 {
            if let Some(b) = cur.take() {
                prog.closures.push(b);
            }
            cur = Some(vec![]);
            continue;
        }
        let op = special.unwrap_or_else(|| to_program(&[*c]).p1[0]);
        match cur.as_mut() {
            Some(b) => b.push(op),
            None => prog.p1.push(op),
        }
    }
    if let Some(b) = cur.take() {
        prog.closures.push(b);
    }
    let mut problems = vec![];
    let run = |dev: Dev<G::ScalarField>| -> Result<bool, String> {
        guarded(|| {
            let pr = program::prove::<G>(&prog, &sh.env.pc, &sh.env.bp, sh.seed, "c16-probe", dev.clone());
            let proof = match pr.obj.clone() {
                Some(p) => p,
                None => return Err(format!("prove Err({:?})", pr.proof.as_ref().err())),
            };
            Ok(program::verify::<G>(&prog, &sh.env.pc, &sh.env.bp, sh.seed, dev, &pr.commitments, &proof, program::LABEL).result.is_ok())
        })
        .unwrap_or_else(|m| Err(format!("panicked: {}", m)))
    };
    // control: the same history without the inserted wire constraints must be accepted, otherwise
    // completeness itself is broken for it (C01's business) and the probe says nothing
    let control = to_program(h);
    let control_ok = guarded(|| {
        let pr = program::prove::<G>(&control, &sh.env.pc, &sh.env.bp, sh.seed, "c16-probe", Dev::None);
        match pr.obj.clone() {
            Some(proof) => program::verify::<G>(&control, &sh.env.pc, &sh.env.bp, sh.seed, Dev::None, &pr.commitments, &proof, program::LABEL).result.is_ok(),
            None => false,
        }
    })
    .unwrap_or(false);
    if !control_ok {
        return None;
    }
    match run(Dev::None) {
        Ok(true) => {}
        other => problems.push(format!("{}: constraining the open gate's right wire and output to 0 was not accepted: {:?}", prog.name(), other)),
    }
    // control for the reject probes: shifting the constant of a constraint on a wire of known value
    // at the same place must be rejected, otherwise soundness of linear constraints itself is broken
    // there (C02's business) and the probes say nothing
    {
        use ark_ff::One;
        let mut ctl = prog.clone();
        let swap = |ops: &mut Vec<Op>| {
            for o in ops.iter_mut() {
                if *o == Op::K(Shape::R) {
                    *o = Op::K(Shape::A);
                }
            }
        };
        swap(&mut ctl.p1);
        for c in ctl.closures.iter_mut() {
            swap(c);
        }
        let ok = kpos.iter().step_by(2).all(|k| {
            guarded(|| {
                let dev = Dev::KConst { k: *k, delta: G::ScalarField::one(), both: true };
                let pr = program::prove::<G>(&ctl, &sh.env.pc, &sh.env.bp, sh.seed, "c16-probe", dev.clone());
                match pr.obj.clone() {
                    Some(proof) => program::verify::<G>(&ctl, &sh.env.pc, &sh.env.bp, sh.seed, dev, &pr.commitments, &proof, program::LABEL).result.is_err(),
                    None => true,
                }
            })
            .unwrap_or(false)
        });
        if !ok {
            return Some(problems);
        }
    }
    for k in kpos {
        use ark_ff::One;
        match run(Dev::KConst { k, delta: G::ScalarField::one(), both: true }) {
            Ok(false) => {}
            other => problems.push(format!("{}: constraining the open gate's wire (constraint #{}) to 1 was not rejected: {:?}", prog.name(), k, other)),
        }
    }
    Some(problems)
}

fn hist_name(h: &[u8]) -> String {
    to_program(h).name()
}

fn donor<G: Cv>(env: &Env<G>, seed: u64) -> R1CSProof<G> {
    let p = Program::parse("C M Kg").unwrap();
    program::prove::<G>(&p, &env.pc, &env.bp, seed, "donor", Dev::None).obj.expect("donor proof")
}

struct RunStats {
    states: u64,
    unique: u64,
    depth: u64,
    validated: u64,
    /// (property name, history, problems)
    violations: Vec<(String, Vec<u8>, Vec<String>)>,
    found: Vec<String>,
    samples: Vec<String>,
}

fn run_tree<G: Cv>(sh: &Shared<G>, max1: usize, max2: usize, two: bool, probe_depth: usize, start: std::time::Instant, budget: std::time::Duration) -> RunStats {
    let m = AllocTree { max1, max2, two_phase: two };
    let (rec, states) = stateright::StateRecorder::new_with_accessor();
    let c = m.checker().threads(8).visitor(rec).finish_when(HasDiscoveries::AnyFailures).spawn_bfs().join();
    let mut v = vec![];
    let mut found = vec![];
    for (name, path) in c.discoveries() {
        if name.starts_with("abstract allocator") {
            v.push((name.to_string(), path.last_state().clone(), vec!["abstract model invariant broken (machinery/spec error)".to_string()]));
        } else {
            found.push(name.to_string());
        }
    }
    found.sort();
    // conformance: every model state (= trace) is replayed on the implementation
    let all: Vec<Vec<u8>> = states();
    let res = par_run(&all, start, budget, |_, h| exec::<G>(sh, h).problems);
    let mut validated = 0;
    for (h, r) in all.iter().zip(res) {
        match r {
            None => {}
            Some(p) => {
                validated += 1;
                if !p.is_empty() {
                    v.push(("roles agree with each other and with the abstract allocator".into(), h.clone(), p));
                }
            }
        }
    }
    let mut probes = 0u64;
    if probe_depth > 0 {
        let sub: Vec<&Vec<u8>> = all.iter().filter(|h| h.iter().filter(|c| **c != P2).count() <= probe_depth).collect();
        let res = par_run(&sub, start, budget, |_, h| closing_probe::<G>(sh, h));
        for (h, r) in sub.iter().zip(res) {
            if let Some(Some(p)) = r {
                probes += 1;
                if !p.is_empty() {
                    v.push(("a gate left open at a phase end is closed with right = output = 0".into(), (*h).clone(), p));
                }
            }
        }
    }
    found.push(format!("closing probes run: {}", probes));
    let samples: Vec<String> = pick(&all).iter().map(|h| hist_name(h)).collect();
    RunStats { samples, states: c.state_count() as u64, unique: c.unique_state_count() as u64, depth: c.max_depth() as u64, validated, violations: v, found }
}

fn run_merged<G: Cv>(sh: &Shared<G>, max_depth: usize, start: std::time::Instant, budget: std::time::Duration) -> RunStats {
    let m = AllocMerged { max_depth };
    let (rec, states) = stateright::StateRecorder::new_with_accessor();
    let c = m.checker().threads(8).visitor(rec).finish_when(HasDiscoveries::AnyFailures).spawn_bfs().join();
    let mut v = vec![];
    for (name, path) in c.discoveries() {
        if name.starts_with("abstract allocator") {
            v.push((name.to_string(), path.last_state().hist.clone(), vec!["abstract model invariant broken (machinery/spec error)".to_string()]));
        }
    }
    let all: Vec<MState> = states();
    let res = par_run(&all, start, budget, |_, s| merged_ok::<G>(sh, s));
    let mut validated = 0;
    for (s, r) in all.iter().zip(res) {
        if let Some(p) = r {
            validated += 1;
            if !p.is_empty() {
                v.push(("the abstract key predicts the observation of the real roles".into(), s.hist.clone(), p));
            }
        }
    }
    let samples: Vec<String> = pick(&all).iter().map(|s| hist_name(&s.hist)).collect();
    RunStats { samples, states: c.state_count() as u64, unique: c.unique_state_count() as u64, depth: c.max_depth() as u64, validated, violations: v, found: vec![] }
}

pub fn main(o: &Opts) -> i32 {
    if let Some(path) = &o.replay {
        return replay(path, o);
    }
    let mut rep = Report::new("C16", o.tier.name(), o.seed, "model_checking");
    let (d1, t1, t2, dm) = match o.tier {
        Tier::Quick => (5, 2, 2, 9),
        Tier::Thorough => (8, 3, 3, 13),
    };
    rep.bounds = json!({"alphabet": ["C", "Cd (commit the same opening again)", "A(Some)", "A(None)", "M(Some)", "M(None)", "X=multiply", "K=constrain", "P2=phase switch / next closure"],
        "tree_phase1_depth": d1, "tree_two_phase_depth": [t1, t2], "merged_depth": dm});
    rep.curves = CURVES.iter().map(|s| s.to_string()).collect();
    let mut states = 0u64;
    let mut unique = 0u64;
    let mut validated = 0u64;
    let mut runs = vec![];
    let start = rep.start;
    for (ci, curve) in CURVES.iter().enumerate() {
        let res: Vec<(String, RunStats)> = with_curve!(*curve, G => {
            let env = Env::<G>::new(64);
            let d = donor::<G>(&env, o.seed);
            let sh = Shared { env, donor: d, seed: o.seed };
            let mut v = vec![];
            let a = run_tree::<G>(&sh, d1, 0, false, 0, start, o.budget);
            if ci == 0 {
                // stateright determinism self-check: identical run, identical counts
                let a2 = run_tree::<G>(&sh, d1, 0, false, 0, start, o.budget);
                if (a.states, a.unique, a.depth) != (a2.states, a2.unique, a2.depth) {
                    eprintln!("machinery: stateright counts differ between two identical runs");
                    std::process::exit(2);
                }
            }
            v.push(("tree/phase1".to_string(), a));
            if o.tier == Tier::Thorough || ci == (o.seed as usize) % 3 {
                v.push(("tree/two-phase".to_string(), run_tree::<G>(&sh, t1, t2, true, if o.tier == Tier::Quick { 4 } else { 5 }, start, o.budget)));
            }
            if o.tier == Tier::Thorough || ci == (o.seed as usize + 1) % 3 {
                v.push(("merged".to_string(), run_merged::<G>(&sh, dm, start, o.budget)));
            }
            v
        });
        for (name, st) in res {
            states += st.states;
            unique += st.unique;
            validated += st.validated;
            if st.validated < st.unique {
                rep.caps_hit.push(format!("{} on {}: time budget reached, {} of {} states replayed on the implementation", name, curve, st.validated, st.unique));
            }
            runs.push(json!({"curve": curve, "model": name, "states_generated": st.states, "unique_states": st.unique, "max_depth": st.depth, "replayed_on_impl": st.validated, "sometimes_reached": st.found}));
            rep.count(&format!("{}:states", name), st.unique);
            for h in &st.samples {
                rep.sample(json!({"model": name, "curve": curve, "history": h}));
            }
            for (pname, h, detail) in st.violations {
                let key = json!({"curve": curve, "history": hist_name(&h)});
                rep.count("violation", 1);
                rep.violation(Violation { key: key.clone(), case: key, expected: pname, observed: format!("{:?}", detail), note: format!("model {}", name) });
            }
        }
    }
    rep.states = Some(unique + 0);
    rep.transitions = Some(states);
    rep.traces_validated = Some(validated);
    rep.evaluations = states;
    rep.nontrivial = unique;
    rep.extra.insert("runs".into(), json!(runs));
    rep.rule = "stateright BFS over call histories; a state is a history (tree models) or the abstract allocator key + depth (merged model); the `always` property re-executes the history on a real Prover and Verifier (closures run inside a real prove/verify) and compares every returned handle and multipliers_len with the other role and with the abstract allocator; states = unique states, transitions = generated states".into();
    rep.explanation = "every model state is materialised by executing its history on the implementation, so every model trace is validated against the implementation".into();
    rep.exhaustive = true;
    rep.sample(json!({"history": "A C A Mn", "meaning": "allocate, commit, allocate (pairs with the first), allocate_multiplier(None) -> MissingAssignment"}));
    rep.sample(json!({"history": "A R[A M] R[A]", "meaning": "pending gate at the phase switch; first phase-2 allocate opens a new gate; second closure pairs with it"}));
    rep.assumptions = vec!["the abstract allocator (counter, pending index, commitment counter, phase bit) is the specification".into(), "stateright's BFS and visited set".into()];
    rep.finish()
}

pub fn replay(path: &str, o: &Opts) -> i32 {
    let v: Value = serde_json::from_str(&std::fs::read_to_string(path).expect("read")).expect("json");
    let case = &v["case"];
    let curve = case["curve"].as_str().unwrap();
    let prog = Program::parse(case["history"].as_str().unwrap()).expect("history");
    let h = from_program(&prog).expect("history alphabet");
    let seed = v["seed"].as_u64().unwrap_or(o.seed);
    let run = || {
        with_curve!(curve, G => {
            let env = Env::<G>::new(64);
            let d = donor::<G>(&env, seed);
            let sh = Shared { env, donor: d, seed };
            exec::<G>(&sh, &h).problems
        })
    };
    let (a, b) = (run(), run());
    if a != b {
        eprintln!("machinery: replay diverged");
        return 2;
    }
    println!("replay: {:?}", a);
    if a.is_empty() {
        0
    } else {
        println!("VIOLATION property=C16 replay={}", path);
        1
    }
}
