//! C11 proof encoding round-trips, has shape-determined size, rejects invalid encodings.
use crate::curves::{point_len, pt_bytes, scalar_len, Cv, CURVES};
use crate::evidence::{guarded, Report, Violation};
use crate::program::{self, Dev, Env, Program};
use crate::proofparts::Parts;
use crate::props::common::*;
use crate::with_curve;
use ark_bulletproofs::r1cs::R1CSProof;
use ark_ec::{AffineRepr, CurveGroup};
use ark_ff::{BigInteger, Field, PrimeField};
use ark_serialize::CanonicalDeserialize;
use serde_json::{json, Value};

fn le32(limbs: &[u64]) -> Vec<u8> {
    let mut v = vec![];
    for l in limbs {
        v.extend(l.to_le_bytes());
    }
    v.resize(32, 0);
    v
}

/// 32-byte little-endian strings that are not canonical scalars: p, p+1, 2^256-1
fn bad_scalars<G: Cv>() -> Vec<(String, Vec<u8>)> {
    let p = <G::ScalarField as PrimeField>::MODULUS;
    let mut p1 = p;
    p1.add_with_carry(&<G::ScalarField as PrimeField>::BigInt::from(1u64));
    vec![("p".into(), le32(p.as_ref())), ("p+1".into(), le32(p1.as_ref())), ("2^256-1".into(), vec![0xff; 32])]
}

/// Compressed point encodings that must be rejected, each with a reason.
fn bad_points<G: Cv>() -> Vec<(String, Vec<u8>)> {
    let pl = point_len::<G>();
    let mut out = vec![];
    // canonical coordinate with no curve point (or, on the cofactor-8 curve, none in the subgroup):
    // walk small integers until three are rejected
    let mut c = 0u64;
    let mut found = 0;
    while found < 3 && c < 200 {
        let mut b = vec![0u8; pl];
        b[..8].copy_from_slice(&c.to_le_bytes());
        if G::deserialize_compressed(&b[..]).is_err() {
            out.push((format!("coordinate {} (no valid point)", c), b));
            found += 1;
        }
        c += 1;
    }
    // non-canonical coordinate >= q
    let q: Vec<u64> = <G::BaseField as Field>::characteristic().to_vec();
    let mut qb = le32(&q);
    qb.resize(pl, 0);
    out.push(("coordinate q".into(), qb.clone()));
    let mut q1 = qb.clone();
    // q + 1 .. q + 3 (q is odd, so no carry out of the first byte for +1)
    q1[0] = q1[0].wrapping_add(1);
    out.push(("coordinate q+1".into(), q1));
    let mut allff = vec![0xffu8; 32];
    allff.resize(pl, 0);
    if pl == 32 {
        allff[31] = 0x7f; // keep the sign flag clear: coordinate 2^255-1 >= q
    }
    out.push(("coordinate all ones".into(), allff));
    // on-curve points outside the prime-order subgroup
    for (i, t) in G::small_order_points().iter().enumerate() {
        out.push((format!("small-order point #{}", i + 1), pt_bytes(t)));
        let shifted = (G::generator().into_group() + t).into_affine();
        out.push((format!("generator + small-order point #{}", i + 1), pt_bytes(&shifted)));
    }
    out
}

#[derive(Default)]
pub struct Out {
    pub checks: u64,
    pub prefixes: u64,
    pub bad_slots: u64,
    pub bad: Vec<(Value, String, String)>,
}

pub fn run_proof<G: Cv>(env: &Env<G>, prog: &Program, seed: u64) -> Out {
    let mut out = Out::default();
    let key = |what: &str| json!({"curve": G::NAME, "program": prog.name(), "check": what});
    // no honest proof to encode: completeness is C01's business
    let Ok(pr) = program::try_prove::<G>(prog, &env.pc, &env.bp, seed, "c11", Dev::None) else { return out };
    let gates = pr.ctx.refcs.gates();
    let Ok(bytes) = pr.proof.clone() else { return out };
    let _ = &key;
    // deterministic encoding: encode the decoded object twice, and compare with the prover's bytes
    let p1 = match R1CSProof::<G>::from_bytes(&bytes) {
        Ok(p) => p,
        Err(e) => {
            out.bad.push((key("decode of a fresh encoding"), "Ok".into(), format!("{:?}", e)));
            return out;
        }
    };
    let e1 = p1.to_bytes().unwrap();
    let e2 = p1.to_bytes().unwrap();
    out.checks += 3;
    if e1 != e2 {
        out.bad.push((key("deterministic encoding"), "same bytes twice".into(), "different".into()));
    }
    if e1 != bytes {
        out.bad.push((key("round trip"), "re-encoding equals the original bytes".into(), "different".into()));
    }
    let p2 = R1CSProof::<G>::from_bytes(&e1).unwrap();
    // (a verifier that panics on this honest statement gives no verdict: C01/C08's business)
    let v1 = guarded(|| program::verify::<G>(prog, &env.pc, &env.bp, seed, Dev::None, &pr.commitments, &p1, program::LABEL).result.is_ok());
    let v2 = guarded(|| program::verify::<G>(prog, &env.pc, &env.bp, seed, Dev::None, &pr.commitments, &p2, program::LABEL).result.is_ok());
    if let (Ok(v1), Ok(v2)) = (v1, v2) {
        if v1 != v2 {
            out.bad.push((key("verdict before/after round trip"), "same verdict".into(), format!("{} / {}", v1, v2)));
        }
    }
    // length law
    let k = gates.max(1).next_power_of_two().trailing_zeros() as usize;
    let want = 11 * point_len::<G>() + 5 * scalar_len::<G>() + 16 + 2 * k * point_len::<G>();
    out.checks += 1;
    // (if the prover did not build the constraint system the reference model holds - C16's
    // business - the model's gate count says nothing about this proof)
    if pr.ctx.problems.is_empty() && bytes.len() != want {
        out.bad.push((key("length law"), format!("{} bytes for {} gates (k={})", want, gates, k), format!("{} bytes", bytes.len())));
    }
    // every strict prefix
    for n in 0..bytes.len() {
        out.prefixes += 1;
        match guarded(|| R1CSProof::<G>::from_bytes(&bytes[..n])) {
            Ok(Err(ark_bulletproofs::r1cs::R1CSError::FormatError)) => {}
            other => out.bad.push((json!({"curve": G::NAME, "program": prog.name(), "check": "strict prefix", "len": n}), "Err(FormatError)".into(), format!("{:?}", other.map(|r| r.map(|_| "Ok(proof)")))))
        }
    }
    // bad scalars in each scalar slot, bad points in each point slot
    let parts = Parts::<G>::parse(&bytes).unwrap();
    let kk = parts.l.len();
    let pl = point_len::<G>();
    let sl = scalar_len::<G>();
    let mut scalar_offsets: Vec<(String, usize)> = (0..3).map(|i| (crate::proofparts::SCALAR_NAMES[i].to_string(), Parts::<G>::offset_of_scalar(i))).collect();
    let tail = bytes.len() - 2 * sl;
    scalar_offsets.push(("a".into(), tail));
    scalar_offsets.push(("b".into(), tail + sl));
    for (sname, off) in &scalar_offsets {
        for (bname, b) in bad_scalars::<G>() {
            let mut x = bytes.clone();
            x[*off..*off + sl].copy_from_slice(&b[..sl]);
            out.bad_slots += 1;
            match guarded(|| R1CSProof::<G>::from_bytes(&x)) {
                Ok(Err(_)) => {}
                other => out.bad.push((json!({"curve": G::NAME, "program": prog.name(), "check": "scalar not below the modulus", "slot": sname, "value": bname}), "Err(FormatError)".into(), format!("{:?}", other.map(|r| r.map(|_| "Ok(proof)"))))),
            }
        }
    }
    let mut point_offsets: Vec<(String, usize)> = (0..11).map(|i| (crate::proofparts::POINT_NAMES[i].to_string(), Parts::<G>::offset_of_point(i))).collect();
    let lbase = Parts::<G>::offset_l_count() + 8;
    for j in 0..kk {
        point_offsets.push((format!("L[{}]", j), lbase + j * pl));
    }
    let rbase = Parts::<G>::offset_r_count(kk) + 8;
    for j in 0..kk {
        point_offsets.push((format!("R[{}]", j), rbase + j * pl));
    }
    for (pname, off) in &point_offsets {
        for (bname, b) in bad_points::<G>() {
            let mut x = bytes.clone();
            x[*off..*off + pl].copy_from_slice(&b);
            out.bad_slots += 1;
            match guarded(|| R1CSProof::<G>::from_bytes(&x)) {
                Ok(Err(_)) => {}
                other => out.bad.push((json!({"curve": G::NAME, "program": prog.name(), "check": "invalid point", "slot": pname, "value": bname}), "Err(FormatError)".into(), format!("{:?}", other.map(|r| r.map(|_| "Ok(proof)"))))),
            }
        }
    }
    // the same invalid contents in encodings whose two point lists have different lengths: the bad
    // point sits in the unpaired tail of the longer list (a decoder that validates L and R pairwise
    // would skip it). Counts are rewritten; the other added points are copies of a valid one.
    let good = bytes[Parts::<G>::offset_of_point(0)..Parts::<G>::offset_of_point(0) + pl].to_vec();
    let lc = Parts::<G>::offset_l_count();
    let rc = Parts::<G>::offset_r_count(kk);
    let build = |l: &[Vec<u8>], r: &[Vec<u8>]| -> Vec<u8> {
        let mut x = bytes[..lc].to_vec();
        x.extend_from_slice(&(l.len() as u64).to_le_bytes());
        for q in l { x.extend_from_slice(q); }
        x.extend_from_slice(&(r.len() as u64).to_le_bytes());
        for q in r { x.extend_from_slice(q); }
        x.extend_from_slice(&bytes[tail..]);
        x
    };
    let lpts: Vec<Vec<u8>> = (0..kk).map(|j| bytes[lc + 8 + j * pl..lc + 8 + (j + 1) * pl].to_vec()).collect();
    let rpts: Vec<Vec<u8>> = (0..kk).map(|j| bytes[rc + 8 + j * pl..rc + 8 + (j + 1) * pl].to_vec()).collect();
    // control: the rebuilt equal-length encoding is the original one
    out.checks += 1;
    if build(&lpts, &rpts) != bytes {
        out.bad.push((key("harness: rebuilt encoding"), "original bytes".into(), "different".into()));
        return out;
    }
    let mut uneven: Vec<(String, Vec<Vec<u8>>, Vec<Vec<u8>>, bool, usize)> = Vec::new(); // (name, l, r, bad in l?, index)
    for e in 1..=2usize {
        for j in 0..e {
            let mut l = lpts.clone();
            l.extend(std::iter::repeat(good.clone()).take(e));
            uneven.push((format!("L+{} tail[{}]", e, j), l, rpts.clone(), true, kk + j));
            let mut r = rpts.clone();
            r.extend(std::iter::repeat(good.clone()).take(e));
            uneven.push((format!("R+{} tail[{}]", e, j), lpts.clone(), r, false, kk + j));
        }
    }
    if kk >= 1 {
        uneven.push(("L-1, R last".into(), lpts[..kk - 1].to_vec(), rpts.clone(), false, kk - 1));
        uneven.push(("R-1, L last".into(), lpts.clone(), rpts[..kk - 1].to_vec(), true, kk - 1));
    }
    for (uname, l, r, in_l, at) in &uneven {
        for (bname, b) in bad_points::<G>() {
            let (mut l, mut r) = (l.clone(), r.clone());
            if *in_l { l[*at] = b.clone(); } else { r[*at] = b.clone(); }
            let x = build(&l, &r);
            out.bad_slots += 1;
            match guarded(|| R1CSProof::<G>::from_bytes(&x)) {
                Ok(Err(_)) => {}
                other => out.bad.push((json!({"curve": G::NAME, "program": prog.name(), "check": "invalid point in the unpaired tail of unequal point lists", "shape": uname, "value": bname}), "Err(FormatError)".into(), format!("{:?}", other.map(|r| r.map(|_| "Ok(proof)"))))),
            }
        }
    }
    out
}

pub fn main(o: &Opts) -> i32 {
    let mut rep = Report::new("C11", o.tier.name(), o.seed, "exploration");
    let mut progs: Vec<Program> = match o.tier {
        Tier::Quick => size_family(4).into_iter().filter(|x| x.0 == Kind::M || (x.1 + x.2) % 3 == 0).map(|x| x.3).collect(),
        Tier::Thorough => size_family(9).into_iter().map(|x| x.3).collect(),
    };
    match o.tier {
        Tier::Quick => progs.extend(program_space2(1, 1, 0)),
        Tier::Thorough => progs.extend(program_space2(2, 1, 0)),
    }
    // large sizes: k = 4, 5
    progs.push(size_program(Kind::M, 9, 3));
    progs.push(size_program(Kind::M, 17, 0));
    if o.tier == Tier::Thorough {
        progs.push(size_program(Kind::M, 16, 16));
        progs.push(size_program(Kind::M, 33, 0));
    }
    if let Some(path) = &o.replay {
        let v: Value = serde_json::from_str(&std::fs::read_to_string(path).unwrap()).unwrap();
        let name = v["case"]["program"].as_str().unwrap().to_string();
        progs.retain(|p| p.name() == name);
    }
    rep.bounds = json!({"proofs": progs.len(), "per_proof": ["encode twice", "decode/re-encode", "verdict before/after", "length law 11|pt|+5|sc|+16+2k|pt|", "every strict prefix", "5 scalar slots x {p, p+1, 2^256-1}", "every point slot x {3 coordinates with no valid point, q, q+1, all ones, small-order points, generator + small-order point}"]});
    rep.curves = CURVES.iter().map(|s| s.to_string()).collect();
    rep.rule = "for every proof produced from the size family and the small program space: equalities as stated; every strict prefix and every listed invalid slot content must be rejected by from_bytes; non-trivial = prefix and slot cases".into();
    let start = rep.start;
    let mut skipped = 0;
    for (ci, curve) in CURVES.iter().enumerate() {
        let res: Vec<Option<Out>> = with_curve!(*curve, G => {
            let env = Env::<G>::new(64);
            let sub: Vec<&Program> = progs.iter().enumerate().filter(|(i, _)| o.tier == Tier::Thorough || i % 3 == ci || progs.len() < 10).map(|(_, p)| p).collect();
            par_run(&sub, start, o.budget, |_, p| run_proof::<G>(&env, p, o.seed))
        });
        for r in res {
            match r {
                None => skipped += 1,
                Some(out) => {
                    rep.evaluations += out.checks + out.prefixes + out.bad_slots;
                    rep.nontrivial += out.prefixes + out.bad_slots;
                    rep.count("proofs", 1);
                    rep.count("equalities+length", out.checks);
                    rep.count("strict prefixes rejected", out.prefixes);
                    rep.count("invalid slot contents rejected", out.bad_slots);
                    for (key, e, ob) in out.bad {
                        rep.count("violation", 1);
                        rep.violation(Violation { key: key.clone(), case: key, expected: e, observed: ob, note: "encoding".into() });
                    }
                }
            }
        }
    }
    if skipped > 0 {
        rep.caps_hit.push(format!("time budget reached: {} proofs skipped", skipped));
    }
    rep.exhaustive = skipped == 0;
    for p in pick(&progs) {
        rep.sample(json!({"program": p.name()}));
    }
    rep.finish()
}
