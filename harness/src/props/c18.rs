//! C18 wire stability: proofs and generators of the reference revision stay valid.
use crate::curves::{point_len, pt_bytes, scalar_len, Cv, CURVES};
use crate::evidence::{verif_root, Report, Violation};
use crate::program::{self, build_prover, build_verifier, take_ctx, Dev, Env, Program};
use crate::proofparts::Parts;
use crate::props::c05::{make_base, run_dev, sdevs, Out as DevOut, SDev};
use crate::props::common::*;
use crate::recorder::record_guarded;
use crate::schedule::{expected_steps, main_events, run_monitor, MainEvent};
use crate::with_curve;
use ark_bulletproofs::r1cs::R1CSProof;
use ark_serialize::CanonicalDeserialize;
use merlin::Transcript;
use serde_json::{json, Value};
use std::collections::BTreeMap;

type Bad = Vec<(Value, String, String)>;
pub const FIXTURE_SEED: u64 = 1;

/// The hand-written circuits of the unpatched recording probe (same source text on both sides).
pub mod probe_circuits {
    use ark_bulletproofs::r1cs::*;
    include!("../../../fixtures/probe/circuits.rs");
}

/// Verify (and optionally regenerate) the proofs recorded by the unpatched probe.
fn check_unpatched<G: Cv>(fx: &Value, compare_bytes: bool) -> (u64, Bad) {
    use ark_bulletproofs::r1cs::{Prover, Variable, Verifier};
    use ark_bulletproofs::{BulletproofGens, PedersenGens};
    use probe_circuits::*;
    let mut bad: Bad = vec![];
    let mut n = 0;
    let pc = PedersenGens::<G>::default();
    let bp = BulletproofGens::<G>::new(8, 1);
    let Some(items) = fx[G::NAME].as_array() else {
        bad.push((json!({"curve": G::NAME, "check": "unpatched fixtures present"}), "3 fixtures".into(), "none".into()));
        return (0, bad);
    };
    for it in items {
        let circuit = it["circuit"].as_u64().unwrap();
        let key = |c: &str| json!({"curve": G::NAME, "unpatched_fixture": circuit, "check": c});
        let comms: Vec<G> = it["commitments"].as_array().unwrap().iter().map(|h| G::deserialize_compressed(&hex::decode(h.as_str().unwrap()).unwrap()[..]).expect("commitment")).collect();
        let bytes = hex::decode(it["proof"].as_str().unwrap()).unwrap();
        let res = crate::evidence::guarded(|| {
            let proof = R1CSProof::<G>::from_bytes(&bytes).map_err(|e| format!("{:?}", e))?;
            let mut t = Transcript::new(b"wire-probe");
            let mut verifier = Verifier::new(&mut t);
            let vars: Vec<Variable<G::ScalarField>> = comms.iter().map(|c| verifier.commit(*c)).collect();
            match circuit {
                0 => wire_circuit0(&mut verifier, &vars, None),
                1 => wire_circuit1(&mut verifier, &vars, None),
                _ => wire_circuit2(&mut verifier, &vars, None),
            }
            .map_err(|e| format!("{:?}", e))?;
            verifier.verify(&proof, &pc, &bp).map_err(|e| format!("{:?}", e))
        });
        n += 1;
        match res {
            Ok(Ok(())) => {}
            other => bad.push((key("proof recorded with the unpatched merlin on the pinned tree is accepted"), "accept".into(), format!("{:?}", other))),
        }
        if compare_bytes {
            use rand_core::SeedableRng;
            let (vals, blinds) = wire_values::<G::ScalarField>();
            let mut t = Transcript::new(b"wire-probe");
            let mut prover = Prover::new(&pc, &mut t);
            let mut vars = vec![];
            for (v, b) in vals.iter().zip(blinds.iter()) {
                vars.push(prover.commit(*v, *b).1);
            }
            match circuit {
                0 => wire_circuit0(&mut prover, &vars, Some(&vals)).unwrap(),
                1 => wire_circuit1(&mut prover, &vars, Some(&vals)).unwrap(),
                _ => wire_circuit2(&mut prover, &vars, Some(&vals)).unwrap(),
            }
            let mut rng = rand_chacha::ChaChaRng::from_seed([7u8; 32]);
            let fresh = prover.prove(&mut rng, &bp).unwrap().to_bytes().unwrap();
            println!("{} circuit {}: regenerated under the recording merlin: bytes {}", G::NAME, circuit, if fresh == bytes { "IDENTICAL" } else { "DIFFER" });
        }
    }
    (n, bad)
}

/// `bpv compare-unpatched`: one-off validation of the additive Merlin patch
pub fn compare_unpatched() -> i32 {
    let fx = load("wire_unpatched.json");
    for curve in CURVES {
        let (_, bad) = with_curve!(curve, G => check_unpatched::<G>(&fx, true));
        for b in bad {
            println!("PROBLEM {:?}", b);
        }
    }
    0
}

pub fn fixture_programs() -> Vec<Program> {
    let p = |s: &str| Program::parse(s).unwrap();
    vec![
        p("C Kb"),
        p("C M Kg"),
        p("C M Kg M Kd"),
        size_program(Kind::AOdd, 3, 0),
        size_program(Kind::M, 5, 0),
        size_program(Kind::M, 8, 0),
        p("C R[]"),
        p("C M Kg R[Z M Kg Kc]"),
        size_program(Kind::AOdd, 2, 1),
        size_program(Kind::X, 2, 3),
        size_program(Kind::M, 3, 5),
        p("T C T M Kd R[T Z A Kc T] R[Z M Kd]"),
    ]
}

/// step-name class used by the label table: V[3] -> V, u[2] -> u[j], app[1] -> app, user[0] -> user
fn class_of(step: &str) -> String {
    match step.find('[') {
        Some(i) => {
            let base = &step[..i];
            if base == "u" {
                "u[j]".into()
            } else {
                base.to_string()
            }
        }
        None => step.to_string(),
    }
}

fn schedule_of(ev: &[MainEvent]) -> Vec<Value> {
    ev.iter().map(|e| json!([if e.is_challenge { "challenge" } else { "append" }, e.label, e.data.len()])).collect()
}

struct Recorded<G: Cv> {
    comms: Vec<G>,
    bytes: Vec<u8>,
    vev: Vec<MainEvent>,
}

fn run_pair<G: Cv>(env: &Env<G>, prog: &Program, seed: u64, given: Option<(&[G], &[u8])>) -> Result<Recorded<G>, String> {
    let (comms, bytes) = match given {
        Some((c, b)) => (c.to_vec(), b.to_vec()),
        None => {
            let pr = program::prove::<G>(prog, &env.pc, &env.bp, seed, "c18-fixture", Dev::None);
            (pr.commitments, pr.proof?)
        }
    };
    let proof = R1CSProof::<G>::from_bytes(&bytes).map_err(|e| format!("fixture proof does not decode: {:?}", e))?;
    let (res, ev) = record_guarded(|| {
        let t = Transcript::new(program::LABEL);
        let (verifier, ctx) = build_verifier::<G, Transcript>(prog, &env.pc, t, seed, Dev::None, &comms);
        let r = verifier.verify(&proof, &env.pc, &env.bp);
        let _ = take_ctx(ctx);
        r.map_err(|e| format!("{:?}", e))
    });
    let (_, vev) = main_events(&ev);
    match res {
        Ok(Ok(())) => Ok(Recorded { comms, bytes, vev }),
        Ok(Err(e)) => Err(format!("verify returned Err({})", e)),
        Err(m) => Err(format!("verify panicked: {}", m)),
    }
}

fn wrong_statements(p: &Program, ncommit: usize, kterms: &[usize]) -> Vec<SDev> {
    let all = sdevs(p, ncommit, kterms);
    all.into_iter().filter(|d| matches!(d, SDev::CommitAddB(0) | SDev::KConst(0, 0) | SDev::Label | SDev::TChange(0) | SDev::CommitExtra | SDev::BlindBase)).collect()
}

pub fn record() -> i32 {
    let mut root = serde_json::Map::new();
    let mut label_table: BTreeMap<String, String> = BTreeMap::new();
    let mut payload_table: BTreeMap<String, String> = BTreeMap::new();
    for curve in CURVES {
        let arr: Vec<Value> = with_curve!(curve, G => {
            let env = Env::<G>::new(64);
            let mut arr = vec![];
            for prog in fixture_programs() {
                let rec = run_pair::<G>(&env, &prog, FIXTURE_SEED, None).expect("fixture run");
                let b = make_base::<G>(&env, &prog, FIXTURE_SEED).expect("base");
                let parts = Parts::<G>::parse(&rec.bytes).unwrap();
                let steps = expected_steps::<G>(&prog, &rec.comms, &parts);
                let m = run_monitor(&steps, &rec.vev).expect("fixture schedule matches the monitor");
                for (i, (step, label)) in m.labels.iter().enumerate() {
                    label_table.insert(class_of(step), label.clone());
                    if step.starts_with("dom-sep") {
                        payload_table.insert(step.clone(), String::from_utf8_lossy(&rec.vev[i].data).to_string());
                    }
                }
                let wrong: Vec<String> = wrong_statements(&prog, rec.comms.len(), &b.kterms).iter().map(|d| d.name()).collect();
                arr.push(json!({
                    "program": prog.name(),
                    "seed": FIXTURE_SEED,
                    "commitments": rec.comms.iter().map(|c| hex::encode(pt_bytes(c))).collect::<Vec<_>>(),
                    "proof": hex::encode(&rec.bytes),
                    "wrong_statements": wrong,
                    "schedule": schedule_of(&rec.vev),
                    "challenges": rec.vev.iter().filter(|e| e.is_challenge).map(|e| hex::encode(&e.data)).collect::<Vec<_>>(),
                }));
            }
            arr
        });
        let (pl, sl): (usize, usize) = with_curve!(curve, G => (point_len::<G>(), scalar_len::<G>()));
        root.insert(curve.to_string(), json!({"point_len": pl, "scalar_len": sl, "fixtures": arr}));
    }
    root.insert("labels".into(), json!(label_table));
    root.insert("domain_separators".into(), json!(payload_table));
    root.insert("_note".into(), json!("recorded by `bpv record-wire` from the reference revision; the checks never write this file"));
    let dir = verif_root().join("fixtures");
    std::fs::create_dir_all(&dir).unwrap();
    std::fs::write(dir.join("wire.json"), serde_json::to_string_pretty(&Value::Object(root)).unwrap()).unwrap();
    println!("wrote fixtures/wire.json");
    0
}

fn load(name: &str) -> Value {
    let p = verif_root().join("fixtures").join(name);
    match std::fs::read_to_string(&p).ok().and_then(|s| serde_json::from_str(&s).ok()) {
        Some(v) => v,
        None => {
            eprintln!("machinery: fixtures/{} missing or invalid", name);
            std::process::exit(2);
        }
    }
}


fn check_fixtures<G: Cv>(fx: &Value, o: &Opts, start: std::time::Instant) -> (u64, u64, Bad) {
    let env = Env::<G>::new(64);
    let mut bad: Bad = vec![];
    let f = &fx[G::NAME];
    let (mut n_accept, mut n_reject) = (0u64, 0u64);
    if f["point_len"].as_u64() != Some(point_len::<G>() as u64) || f["scalar_len"].as_u64() != Some(scalar_len::<G>() as u64) {
        bad.push((json!({"curve": G::NAME, "check": "encoding sizes"}), format!("point {} scalar {}", f["point_len"], f["scalar_len"]), format!("point {} scalar {}", point_len::<G>(), scalar_len::<G>())));
    }
    let items: Vec<&Value> = f["fixtures"].as_array().map(|a| a.iter().collect()).unwrap_or_default();
    let res = par_run(&items, start, o.budget, |_, it| {
        let mut bad: Bad = vec![];
        let mut rejected = 0u64;
        let pname = it["program"].as_str().unwrap();
        let key = |c: &str| json!({"curve": G::NAME, "fixture": pname, "check": c});
        let prog = Program::parse(pname).expect("fixture program");
        let seed = it["seed"].as_u64().unwrap();
        let comms: Option<Vec<G>> = it["commitments"].as_array().unwrap().iter().map(|h| G::deserialize_compressed(&hex::decode(h.as_str().unwrap()).unwrap()[..]).ok()).collect();
        let Some(comms) = comms else {
            bad.push((key("commitments decode"), "valid points".into(), "decode error".into()));
            return (0, 0, bad);
        };
        let bytes = hex::decode(it["proof"].as_str().unwrap()).unwrap();
        match run_pair::<G>(&env, &prog, seed, Some((&comms, &bytes))) {
            Err(e) => bad.push((key("recorded proof is accepted for its statement"), "accept".into(), e)),
            Ok(rec) => {
                if json!(schedule_of(&rec.vev)) != it["schedule"] {
                    let got = schedule_of(&rec.vev);
                    let want = it["schedule"].as_array().unwrap();
                    let pos = got.iter().zip(want.iter()).position(|(a, b)| a != b).unwrap_or(got.len().min(want.len()));
                    bad.push((key("transcript schedule (operation, label, payload length)"), format!("#{}: {}", pos, want.get(pos).unwrap_or(&Value::Null)), format!("#{}: {}", pos, got.get(pos).unwrap_or(&Value::Null))));
                }
                let ch: Vec<String> = rec.vev.iter().filter(|e| e.is_challenge).map(|e| hex::encode(&e.data)).collect();
                if json!(ch) != it["challenges"] {
                    bad.push((key("challenge outputs"), "as recorded".into(), "different".into()));
                }
                // re-encoding reproduces the recorded bytes (layout)
                let re = R1CSProof::<G>::from_bytes(&bytes).unwrap().to_bytes().unwrap();
                if re != bytes {
                    bad.push((key("encoding layout"), "re-encoding equals the recorded bytes".into(), "different".into()));
                }
            }
        }
        // recorded wrong statements are still rejected
        if let Ok(proof) = R1CSProof::<G>::from_bytes(&bytes) {
            // only the number of explicit constraints matters for rebuilding the recorded deviations
            let kterms: Vec<usize> = vec![1; prog.stats().1];
            let base = crate::props::c05::BaseRun { prog: prog.clone(), comms: comms.clone(), proof, honest: Default::default(), gates: prog.stats().2, kterms: kterms.clone() };
            let all = sdevs(&prog, comms.len(), &kterms);
            for w in it["wrong_statements"].as_array().unwrap() {
                let wname = w.as_str().unwrap();
                match all.iter().find(|d| d.name() == wname) {
                    None => bad.push((key(&format!("wrong statement '{}' can be rebuilt", wname)), "known deviation".into(), "unknown".into())),
                    Some(d) => match run_dev::<G>(&env, &base, d, seed) {
                        DevOut::Rejected | DevOut::DontCare(_, false) => rejected += 1,
                        other => bad.push((key(&format!("wrong statement '{}' is rejected", wname)), "reject".into(), format!("{:?}", other))),
                    },
                }
            }
        }
        (1, rejected, bad)
    });
    for r in res.into_iter().flatten() {
        n_accept += r.0;
        n_reject += r.1;
        bad.extend(r.2);
    }
    (n_accept, n_reject, bad)
}

fn check_labels<G: Cv>(fx: &Value, progs: &[&Program], o: &Opts, start: std::time::Instant) -> (u64, u64, Bad) {
    let env = Env::<G>::new(64);
    let labels = &fx["labels"];
    let doms = &fx["domain_separators"];
    let res = par_run(progs, start, o.budget, |_, prog| {
        let mut bad: Bad = vec![];
        let key = |c: &str| json!({"curve": G::NAME, "program": prog.name(), "check": c});
        let (res, ev) = record_guarded(|| {
            let t = Transcript::new(program::LABEL);
            let (prover, ctx, comms) = build_prover::<G, Transcript>(prog, &env.pc, t, o.seed, Dev::None);
            let mut rng = crate::alphabet::chacha(o.seed, "c18");
            let r = prover.prove(&mut rng, &env.bp).map(|p| p.to_bytes().unwrap());
            let order = take_ctx(ctx).closure_order;
            (r, comms, order)
        });
        let (bytes, comms, order) = match res {
            Ok((Ok(b), c, o)) => (b, c, o),
            // no fresh proof: completeness is C01's business, nothing to compare here
            _ => return (0u64, bad),
        };
        let parts = Parts::<G>::parse(&bytes).unwrap();
        let steps = crate::schedule::expected_steps_ordered::<G>(prog, &comms, &parts, &order);
        let (_, mev) = main_events(&ev);
        let mut n = 0;
        match run_monitor(&steps, &mev) {
            // a run that does not have the protocol's structure is C06's business; labels cannot be
            // attributed to steps then
            Err(_) => {}
            Ok(m) => {
                for (i, (step, label)) in m.labels.iter().enumerate() {
                    n += 1;
                    let want = labels[class_of(step)].as_str().unwrap_or("<not recorded>");
                    if want != label {
                        bad.push((key(&format!("label of {}", step)), format!("{:?}", want), format!("{:?}", label)));
                        break;
                    }
                    if step.starts_with("dom-sep") {
                        let wantp = doms[step.as_str()].as_str().unwrap_or("<not recorded>");
                        let got = String::from_utf8_lossy(&mev[i].data).to_string();
                        if wantp != got {
                            bad.push((key(&format!("payload of {}", step)), format!("{:?}", wantp), format!("{:?}", got)));
                            break;
                        }
                    }
                }
            }
        }
        (n, bad)
    });
    let mut bad = vec![];
    let (mut progs_n, mut steps_n) = (0u64, 0u64);
    for r in res.into_iter().flatten() {
        progs_n += 1;
        steps_n += r.0;
        bad.extend(r.1);
    }
    (progs_n, steps_n, bad)
}

pub fn main(o: &Opts) -> i32 {
    let mut rep = Report::new("C18", o.tier.name(), o.seed, "exploration");
    let fx = load("wire.json");
    let gens_fx = crate::props::c12::load_fixtures();
    let blobs_fx = crate::props::c12::load_blobs();
    let ufx = load("wire_unpatched.json");
    let mut progs: Vec<Program> = match o.tier {
        Tier::Quick => program_space2(2, 1, 0),
        Tier::Thorough => program_space(2, 1),
    };
    progs.extend(size_family(5).into_iter().map(|x| x.3));
    progs.extend(extra_programs());
    rep.bounds = json!({"fixtures_per_curve": fixture_programs().len(), "fixture_programs": fixture_programs().iter().map(|p| p.name()).collect::<Vec<_>>(),
        "fresh_schedule_programs": progs.len(), "generator_digests": "4 parties x prefixes up to 1024 (quick) / 4096 (thorough), Pedersen bases"});
    rep.curves = CURVES.iter().map(|s| s.to_string()).collect();
    rep.rule = "every recorded fixture (proof + statement) of the reference revision is verified on the current tree: accepted for its statement, rejected for each recorded wrong statement, same transcript schedule (operation, label, payload length) and same challenge outputs, re-encodes to the recorded bytes; generator and Pedersen-base digests reproduce; serialized generator objects recorded from the pinned revision are reproduced byte for byte and still decode to the same views; the label / domain-separator table of the reference revision is compared with the schedule of a fresh honest run of every program of the bounded space; non-trivial = fixture verifications plus fresh schedules".into();
    let start = rep.start;
    for (ci, curve) in CURVES.iter().enumerate() {
        let sub: Vec<&Program> = progs.iter().enumerate().filter(|(i, _)| o.tier == Tier::Thorough || i % 3 == ci).map(|(_, p)| p).collect();
        let (acc, rej, bad1, pn, sn, bad2, gn, bad3): (u64, u64, Bad, u64, u64, Bad, u64, Bad) = with_curve!(*curve, G => {
            let (a, r, b1) = check_fixtures::<G>(&fx, o, start);
            let (pn, sn, b2) = check_labels::<G>(&fx, &sub, o, start);
            let (gn, mut b3) = crate::props::c12::content_checks::<G>(if o.tier == Tier::Quick { 1024 } else { 4096 }, 4, Some(&gens_fx));
            let (un, b4) = check_unpatched::<G>(&ufx, false);
            b3.extend(b4);
            let (bn, b5) = crate::props::c12::blob_checks::<G>(&blobs_fx, true);
            b3.extend(b5);
            (a + un, r, b1, pn, sn, b2, gn + bn, b3)
        });
        rep.count("fixtures accepted for their statement", acc);
        rep.count("recorded wrong statements rejected", rej);
        rep.count("fresh schedules compared with the recorded label table", pn);
        rep.count("schedule steps compared", sn);
        rep.count("generators compared with recorded digests", gn);
        rep.evaluations += acc + rej + pn + gn;
        rep.nontrivial += acc + rej + pn;
        for (key, e, ob) in bad1.into_iter().chain(bad2).chain(bad3) {
            rep.count("violation", 1);
            rep.violation(Violation { key: key.clone(), case: key, expected: e, observed: ob, note: "wire stability".into() });
        }
    }
    rep.exhaustive = true;
    rep.sample(json!({"fixture": fixture_programs()[7].name(), "curve": "zorro"}));
    rep.sample(json!({"fresh schedule of": progs[progs.len() / 2].name()}));
    rep.assumptions = vec!["fixtures were recorded from the reference revision (pinned tree plus the two fix commits, which do not change any accepted proof); fresh proof bytes are not pinned".into()];
    rep.finish()
}
