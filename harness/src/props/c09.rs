//! C09 hiding: every commitment carries fresh independent blinding from the prover RNG.
use crate::curves::{sc_bytes, Cv, CURVES};
use crate::evidence::{Report, Violation};
use crate::program::{self, build_prover, finish_ctx, take_ctx, Ctx, Dev, Env, Program};
use crate::proofparts::Parts;
use crate::props::common::*;
use crate::recorder::{draws_from_fills, record_guarded, scalar_from_challenge, Event};
use crate::schedule::{expected_steps_ordered, main_events, run_monitor};
use crate::with_curve;
use ark_ec::{AffineRepr, CurveGroup};
use ark_ff::{Field, One, Zero};
use merlin::Transcript;
use rand_core::RngCore;
use serde_json::{json, Value};
use std::collections::HashMap;

pub struct Run<G: Cv> {
    pub bytes: Vec<u8>,
    pub comms: Vec<G>,
    pub ctx: Ctx<G::ScalarField>,
    pub events: Vec<Event>,
}

pub fn recorded_prove<G: Cv>(env: &Env<G>, prog: &Program, seed: u64, ext_tag: &str) -> Result<Run<G>, String> {
    let (res, ev) = record_guarded(|| {
        let t = Transcript::new(program::LABEL);
        let (prover, ctx, comms) = build_prover::<G, Transcript>(prog, &env.pc, t, seed, Dev::None);
        let mut rng = crate::alphabet::chacha(seed, ext_tag);
        let r = prover.prove(&mut rng, &env.bp);
        let mut ctx = take_ctx(ctx);
        finish_ctx(&mut ctx);
        (r.map(|p| p.to_bytes().unwrap()), comms, ctx)
    });
    match res {
        Ok((Ok(bytes), comms, ctx)) => Ok(Run { bytes, comms, ctx, events: ev }),
        Ok((Err(e), _, _)) => Err(format!("prove returned Err({:?})", e)),
        Err(m) => Err(format!("prove panicked: {}", m)),
    }
}

#[derive(Default)]
pub struct Out {
    pub draws: usize,
    pub attributed: usize,
    pub full_opening: bool,
    pub bad: Vec<(String, String)>,
    pub precondition: Option<&'static str>,
}

struct Pool<F: Field> {
    draws: Vec<F>,
    used: Vec<Option<String>>,
    index: HashMap<Vec<u8>, Vec<usize>>,
}
impl<F: ark_ff::PrimeField> Pool<F> {
    fn new(draws: Vec<F>) -> Self {
        let mut index: HashMap<Vec<u8>, Vec<usize>> = HashMap::new();
        for (i, d) in draws.iter().enumerate() {
            index.entry(sc_bytes(d)).or_default().push(i);
        }
        Pool { used: vec![None; draws.len()], draws, index }
    }
    fn free_index_of(&self, v: &F) -> Option<usize> {
        self.index.get(&sc_bytes(v)).and_then(|is| is.iter().find(|i| self.used[**i].is_none()).cloned())
    }
    fn take(&mut self, i: usize, role: &str) {
        self.used[i] = Some(role.to_string());
    }
    fn free(&self) -> Vec<usize> {
        (0..self.draws.len()).filter(|i| self.used[*i].is_none()).collect()
    }
}

/// find an unused draw d with d * base == residual
fn open_multiple<G: Cv>(pool: &mut Pool<G::ScalarField>, residual: G::Group, base: &G, role: &str) -> Option<G::ScalarField> {
    for i in pool.free() {
        let d = pool.draws[i];
        if base.into_group() * d == residual {
            pool.take(i, role);
            return Some(d);
        }
    }
    None
}

/// injective assignment of unused draws to positions with sum coef_i * s_i == target
fn solve_positions<F: ark_ff::PrimeField>(pool: &Pool<F>, coefs: &[F], target: F) -> Option<Vec<usize>> {
    let n = coefs.len();
    if n == 0 {
        return if target.is_zero() { Some(vec![]) } else { None };
    }
    let free = pool.free();
    let last_inv = coefs[n - 1].inverse()?;
    fn rec<F: ark_ff::PrimeField>(pool: &Pool<F>, free: &[usize], coefs: &[F], last_inv: F, target: F, chosen: &mut Vec<usize>, acc: F) -> Option<Vec<usize>> {
        let n = coefs.len();
        if chosen.len() == n - 1 {
            let need = (target - acc) * last_inv;
            if let Some(is) = pool.index.get(&sc_bytes(&need)) {
                for i in is {
                    if pool.used[*i].is_none() && !chosen.contains(i) {
                        let mut v = chosen.clone();
                        v.push(*i);
                        return Some(v);
                    }
                }
            }
            return None;
        }
        let pos = chosen.len();
        for i in free {
            if chosen.contains(i) {
                continue;
            }
            chosen.push(*i);
            if let Some(v) = rec(pool, free, coefs, last_inv, target, chosen, acc + coefs[pos] * pool.draws[*i]) {
                return Some(v);
            }
            chosen.pop();
        }
        None
    }
    rec(pool, &free, coefs, last_inv, target, &mut vec![], F::zero())
}

pub fn check_program<G: Cv>(env: &Env<G>, prog: &Program, seed: u64) -> Out {
    let mut out = Out::default();
    let run = match recorded_prove::<G>(env, prog, seed, "c09-ext-1") {
        Ok(r) => r,
        Err(_) => {
            out.precondition = Some("the honest prover run did not produce a proof (C01's business)");
            return out;
        }
    };
    let parts = match Parts::<G>::parse(&run.bytes) {
        Some(p) => p,
        None => {
            out.bad.push(("proof parses".into(), "no".into()));
            return out;
        }
    };
    if !run.ctx.problems.is_empty() {
        out.precondition = Some("prover and reference model disagree on the variables handed out (C16's business): the witness layout is unknown, opening skipped");
        return out;
    }
    let rc = &run.ctx.refcs;
    let (n, n1, padded) = (rc.gates(), rc.n1(), rc.padded());
    let n2 = n - n1;
    let m = rc.blind.len();
    // ---- (5) keying of the prover RNG, observed at the Merlin API
    let (main, mev) = main_events(&run.events);
    let builders: Vec<(usize, u64)> = run.events.iter().enumerate().filter_map(|(i, e)| match e { Event::BuildRng { parent, child } if *parent == main => Some((i, *child)), _ => None }).collect();
    if builders.len() != 1 {
        out.bad.push(("exactly one RNG is built from the transcript".into(), format!("{} builders", builders.len())));
        return out;
    }
    let (built_at, bid) = builders[0];
    let rekeys: Vec<(usize, &Vec<u8>)> = run.events.iter().enumerate().filter_map(|(i, e)| match e { Event::Rekey { id, witness, .. } if *id == bid => Some((i, witness)), _ => None }).collect();
    let finals: Vec<(usize, &Vec<u8>)> = run.events.iter().enumerate().filter_map(|(i, e)| match e { Event::Finalize { id, ext } if *id == bid => Some((i, ext)), _ => None }).collect();
    let fills: Vec<(usize, Vec<u8>)> = run.events.iter().enumerate().filter_map(|(i, e)| match e { Event::RngFill { id, out } if *id == bid => Some((i, out.clone())), _ => None }).collect();
    let other_fills = run.events.iter().filter(|e| matches!(e, Event::RngFill { id, .. } if *id != bid)).count();
    if other_fills > 0 {
        out.bad.push(("all prover randomness comes from the one transcript-bound RNG".into(), format!("{} fills on another RNG", other_fills)));
    }
    for j in 0..m {
        let want = sc_bytes(&rc.blind[j]);
        if !rekeys.iter().any(|(_, w)| **w == want) {
            out.bad.push(("the RNG is re-keyed with every commitment blinding factor".into(), format!("no witness re-key carries the blinding factor of commitment {}", j)));
        }
    }
    let mut ext_expected = [0u8; 32];
    crate::alphabet::chacha(seed, "c09-ext-1").fill_bytes(&mut ext_expected);
    match finals.first() {
        None => out.bad.push(("the RNG is finalized with external randomness".into(), "no finalize".into())),
        Some((at, ext)) => {
            if ext.len() < 32 || ext[..32] != ext_expected {
                out.bad.push(("the RNG is keyed with >= 32 bytes read from the caller's RNG".into(), format!("{} bytes, {}", ext.len(), if ext.len() >= 32 { "not the caller's bytes" } else { "too few" })));
            }
            if let Some((f0, _)) = fills.first() {
                if *f0 < *at || rekeys.iter().any(|(i, _)| *i > *f0) {
                    out.bad.push(("keying happens before the first draw".into(), "a draw precedes keying".into()));
                }
            }
        }
    }
    // ---- draws
    let draws: Vec<G::ScalarField> = draws_from_fills(&fills.iter().map(|f| f.1.clone()).collect::<Vec<_>>());
    out.draws = draws.len();
    for (i, d) in draws.iter().enumerate() {
        if d.is_zero() {
            out.bad.push(("every draw is non-zero".into(), format!("draw #{} is zero", i)));
        }
    }
    {
        let mut enc: Vec<Vec<u8>> = draws.iter().map(sc_bytes).collect();
        enc.sort();
        if enc.windows(2).any(|w| w[0] == w[1]) {
            out.bad.push(("draws are pairwise distinct".into(), "two equal draws".into()));
        }
    }
    let mut pool = Pool::new(draws);
    // ---- challenges from the prover's own transcript
    let steps = expected_steps_ordered::<G>(prog, &run.comms, &parts, &run.ctx.closure_order);
    let matched = match run_monitor(&steps, &mev) {
        Ok(m) => m,
        Err(_) => {
            // the run does not have the protocol's structure: C06 reports that; without the
            // challenges the draws cannot be attributed
            out.precondition = Some("transcript structure differs from the protocol (C06's business): attribution skipped");
            return out;
        }
    };
    // the RNG must be built after the commitments and their count were absorbed (transcript-bound)
    let absorbed_before = mev.iter().filter(|e| e.at < built_at && !e.is_challenge).count();
    if absorbed_before < 2 + m + 1 {
        out.bad.push(("the RNG is built from the transcript after the commitments and their count are absorbed".into(), format!("only {} appends precede build_rng", absorbed_before)));
    }
    let chal = |name: &str| scalar_from_challenge::<G::ScalarField>(matched.challenge(name).expect("challenge present"));
    let (y, z, u, x, _w) = (chal("y"), chal("z"), chal("u"), chal("x"), chal("w"));
    let us: Vec<G::ScalarField> = (0..parts.l.len()).map(|j| chal(&format!("u[{}]", j))).collect();
    let gs: Vec<G> = env.bp.G(padded, 1).cloned().collect();
    let hs: Vec<G> = env.bp.H(padded, 1).cloned().collect();
    let asg = &rc.actual;
    let bb = env.pc.B_blinding;
    // the opening below assumes the proof was built for the statement the reference model holds
    // (same flattened weights): that is the case iff the proof satisfies the reference relations
    let consistent = {
        let w = chal("w");
        let ch = crate::refverify::Challenges { y, z, u, x, w, rounds: us.clone() };
        crate::refverify::refverify::<G>(&parts, rc, &run.comms, &env.pc, &env.bp, &ch).accept()
    };
    if !consistent {
        out.precondition = Some("the honest proof does not satisfy the reference relations (C01/C02/C03's business): openings skipped");
    }
    // ---- (1) witness-bearing commitments
    let mut opened: HashMap<&'static str, G::ScalarField> = HashMap::new();
    let ranges: Vec<(&'static str, &'static str, &'static str, usize, usize, usize)> = vec![("iota1", "omicron1", "sigma1", 0, n1, 0), ("iota2", "omicron2", "sigma2", n1, n, 3)];
    for (ri, ro, _rs, lo, hi, base) in ranges.iter() {
        if !consistent {
            break;
        }
        if *base == 3 && n2 == 0 {
            for k in 3..6 {
                if !parts.pts[k].is_zero() {
                    out.bad.push(("second-phase commitments are the identity when phase 2 adds no gate".into(), format!("{} is not the identity", crate::proofparts::POINT_NAMES[k])));
                }
            }
            continue;
        }
        let mut wit_i = G::Group::zero();
        let mut wit_o = G::Group::zero();
        for i in *lo..*hi {
            wit_i += gs[i].into_group() * asg.l[i] + hs[i].into_group() * asg.r[i];
            wit_o += gs[i].into_group() * asg.o[i];
        }
        match open_multiple::<G>(&mut pool, parts.pts[*base].into_group() - wit_i, &bb, ri) {
            Some(c) => {
                opened.insert(ri, c);
            }
            None => out.bad.push((format!("{} = witness part + (fresh non-zero draw) * B_blinding", crate::proofparts::POINT_NAMES[*base]), "no unused draw opens it".into())),
        }
        match open_multiple::<G>(&mut pool, parts.pts[*base + 1].into_group() - wit_o, &bb, ro) {
            Some(c) => {
                opened.insert(ro, c);
            }
            None => out.bad.push((format!("{} = witness part + (fresh non-zero draw) * B_blinding", crate::proofparts::POINT_NAMES[*base + 1]), "no unused draw opens it".into())),
        }
    }
    // ---- (2) masking vectors and everything built on them: only where the final scalars reveal l(x), r(x)
    if padded <= 4 && out.bad.is_empty() && consistent {
        out.full_opening = true;
        let (wl, wr, wo, wv, _wc) = rc.flatten(z);
        let yinv = y.inverse().unwrap();
        let mut ypow = vec![G::ScalarField::one(); padded + 1];
        let mut yipow = vec![G::ScalarField::one(); padded + 1];
        for i in 1..=padded {
            ypow[i] = ypow[i - 1] * y;
            yipow[i] = yipow[i - 1] * yinv;
        }
        let k = us.len();
        let e: Vec<G::ScalarField> = (0..padded)
            .map(|i| {
                let mut acc = G::ScalarField::one();
                for j in 0..k {
                    let bit = (i >> (k - 1 - j)) & 1;
                    acc *= if bit == 0 { us[j] } else { us[j].inverse().unwrap() };
                }
                acc
            })
            .collect();
        let x2 = x * x;
        let x3 = x2 * x;
        // known parts
        let l1: Vec<G::ScalarField> = (0..n).map(|i| asg.l[i] + yipow[i] * wr[i]).collect();
        let l2: Vec<G::ScalarField> = (0..n).map(|i| asg.o[i]).collect();
        let r0: Vec<G::ScalarField> = (0..n).map(|i| wo[i] - ypow[i]).collect();
        let r1: Vec<G::ScalarField> = (0..n).map(|i| ypow[i] * asg.r[i] + wl[i]).collect();
        let mut a_known = G::ScalarField::zero();
        let mut b_known = G::ScalarField::zero();
        for i in 0..padded {
            let ei = e[i];
            let eii = ei.inverse().unwrap();
            if i < n {
                a_known += ei * (l1[i] * x + l2[i] * x2);
                b_known += eii * (r0[i] + r1[i] * x);
            } else {
                b_known += eii * (-ypow[i]);
            }
        }
        let coef_l: Vec<G::ScalarField> = (0..n).map(|i| e[i] * x3).collect();
        let coef_r: Vec<G::ScalarField> = (0..n).map(|i| e[i].inverse().unwrap() * ypow[i] * x3).collect();
        let sl_idx = solve_positions(&pool, &coef_l, parts.a - a_known);
        let s_l: Option<Vec<G::ScalarField>> = sl_idx.map(|is| {
            for (p, i) in is.iter().enumerate() {
                pool.take(*i, &format!("s_L[{}]", p));
            }
            is.iter().map(|i| pool.draws[*i]).collect()
        });
        let sr_idx = solve_positions(&pool, &coef_r, parts.b - b_known);
        let s_r: Option<Vec<G::ScalarField>> = sr_idx.map(|is| {
            for (p, i) in is.iter().enumerate() {
                pool.take(*i, &format!("s_R[{}]", p));
            }
            is.iter().map(|i| pool.draws[*i]).collect()
        });
        match (s_l, s_r) {
            (Some(s_l), Some(s_r)) => {
                // masking commitments
                for (rs, lo, hi, base) in [("sigma1", 0usize, n1, 2usize), ("sigma2", n1, n, 5)] {
                    if base == 5 && n2 == 0 {
                        continue;
                    }
                    let mut wit = G::Group::zero();
                    for i in lo..hi {
                        wit += gs[i].into_group() * s_l[i] + hs[i].into_group() * s_r[i];
                    }
                    match open_multiple::<G>(&mut pool, parts.pts[base].into_group() - wit, &bb, rs) {
                        Some(c) => {
                            opened.insert(rs, c);
                        }
                        None => out.bad.push((format!("{} = <s_L,G> + <s_R,H> + (fresh draw) * B_blinding with the masking vectors the final scalars reveal", crate::proofparts::POINT_NAMES[base]), "no unused draw opens it".into())),
                    }
                }
                // polynomial commitments
                let l3 = &s_l;
                let r3: Vec<G::ScalarField> = (0..n).map(|i| ypow[i] * s_r[i]).collect();
                let ip = |a: &[G::ScalarField], b: &[G::ScalarField]| -> G::ScalarField { a.iter().zip(b.iter()).map(|(p, q)| *p * q).sum() };
                let t = [ip(&l1, &r0), ip(&l2, &r1) + ip(l3, &r0), ip(&l1, &r3) + ip(l3, &r1), ip(&l2, &r3), ip(l3, &r3)];
                let names = ["tau1", "tau3", "tau4", "tau5", "tau6"];
                let mut taus = vec![];
                for i in 0..5 {
                    let res = parts.pts[6 + i].into_group() - env.pc.B.into_group() * t[i];
                    match open_multiple::<G>(&mut pool, res, &bb, names[i]) {
                        Some(c) => taus.push(c),
                        None => out.bad.push((format!("{} = t_i * B + (fresh draw) * B_blinding", crate::proofparts::POINT_NAMES[6 + i]), "no unused draw opens it".into())),
                    }
                }
                if taus.len() == 5 {
                    let xs = [x, x3, x3 * x, x3 * x2, x3 * x3];
                    let mut want = G::ScalarField::zero();
                    for i in 0..5 {
                        want += taus[i] * xs[i];
                    }
                    let t2b: G::ScalarField = wv.iter().zip(rc.blind.iter()).map(|(c, b)| *c * b).sum();
                    want += x2 * t2b;
                    if want != parts.sc[1] {
                        out.bad.push(("t_x_blinding = sum tau_i x^i + x^2 <wV, v_blinding>".into(), "different scalar".into()));
                    }
                }
                let get = |k: &str| opened.get(k).cloned();
                if let (Some(i1), Some(o1), Some(s1)) = (get("iota1"), get("omicron1"), get("sigma1")) {
                    let (i2, o2, s2) = if n2 > 0 { (get("iota2"), get("omicron2"), get("sigma2")) } else { (Some(G::ScalarField::zero()), Some(G::ScalarField::zero()), Some(G::ScalarField::zero())) };
                    if let (Some(i2), Some(o2), Some(s2)) = (i2, o2, s2) {
                        let want = x * ((i1 + u * i2) + x * ((o1 + u * o2) + x * (s1 + u * s2)));
                        if want != parts.sc[2] {
                            out.bad.push(("e_blinding = x(iota + x(omicron + x sigma)) with the opened draws".into(), "different scalar".into()));
                        }
                    }
                }
                // (3) every draw attributed exactly once, none left over
                let left = pool.free();
                if !left.is_empty() && out.bad.is_empty() {
                    out.bad.push(("every RNG draw is used for exactly one blinding role".into(), format!("{} draw(s) not attributed to any role", left.len())));
                }
            }
            _ => out.bad.push(("the final inner-product scalars are l(x), r(x) folded, with masking vectors made of fresh draws".into(), "no injective assignment of unused draws explains the final scalars".into())),
        }
    }
    out.attributed = pool.used.iter().filter(|u| u.is_some()).count();
    // ---- (4) determinism under the same randomness, difference under different randomness
    match (recorded_prove::<G>(env, prog, seed, "c09-ext-1"), recorded_prove::<G>(env, prog, seed, "c09-ext-2")) {
        (Ok(same), Ok(other)) => {
            if same.bytes != run.bytes {
                out.bad.push(("same statement, witness and external randomness reproduce the same proof".into(), "different bytes".into()));
            }
            if let Some(p2) = Parts::<G>::parse(&other.bytes) {
                let mut shared = vec![];
                for i in 0..11 {
                    let fixed = (3..6).contains(&i) && n2 == 0;
                    if parts.pts[i] == p2.pts[i] && !fixed {
                        shared.push(crate::proofparts::POINT_NAMES[i].to_string());
                    }
                }
                for i in 0..3 {
                    let fixed = i == 0 && n == 0;
                    if parts.sc[i] == p2.sc[i] && !fixed {
                        shared.push(crate::proofparts::SCALAR_NAMES[i].to_string());
                    }
                }
                for j in 0..parts.l.len().min(p2.l.len()) {
                    if parts.l[j] == p2.l[j] {
                        shared.push(format!("L[{}]", j));
                    }
                    if parts.r[j] == p2.r[j] {
                        shared.push(format!("R[{}]", j));
                    }
                }
                if n > 0 {
                    if parts.a == p2.a {
                        shared.push("a".into());
                    }
                    if parts.b == p2.b {
                        shared.push("b".into());
                    }
                }
                if !shared.is_empty() {
                    out.bad.push(("proofs under different external randomness share no component except the statement-fixed ones".into(), format!("shared: {:?}", shared)));
                }
            }
        }
        _ => out.precondition = Some("re-proving did not produce a proof (C01's business)"),
    }
    out
}

pub fn main(o: &Opts) -> i32 {
    let mut rep = Report::new("C09", o.tier.name(), o.seed, "exploration");
    let mut progs: Vec<Program> = match o.tier {
        Tier::Quick => program_space2(2, 1, 0),
        Tier::Thorough => {
            let mut p = program_space(2, 1);
            p.extend(program_space2(3, 1, 0).into_iter().filter(|x| x.p1.len() == 3));
            p
        }
    };
    progs.extend(size_family(if o.tier == Tier::Quick { 3 } else { 5 }).into_iter().map(|x| x.3));
    progs.extend(extra_programs());
    progs.push(Program::parse("C C M Kd R[Z M Kc T] R[Z A Kd]").unwrap());
    if let Some(path) = &o.replay {
        let v: Value = serde_json::from_str(&std::fs::read_to_string(path).unwrap()).unwrap();
        progs.retain(|p| Some(p.name().as_str()) == v["case"]["program"].as_str());
    }
    rep.bounds = json!({"programs": progs.len(), "space": if o.tier == Tier::Quick { "P(2,1) without second closures + S(3)" } else { "P(2,1) with second closures + the depth-3 layer of P(3,1) + S(5)" }, "full_opening": "padded gate count <= 4", "external_seeds": 2});
    rep.curves = CURVES.iter().map(|s| s.to_string()).collect();
    rep.rule = "for every program the prover run is recorded at the Merlin API; the scalars its RNG emitted are recovered by replaying the recorded bytes; every commitment of the proof is opened as (known part) + (one unused draw) * B_blinding, the masking vectors are recovered from the final inner-product scalars by an order-agnostic search over unused draws, the published blinding scalars are recomputed, and every draw must be non-zero, distinct and used exactly once; keying is observed on the RNG builder; determinism / difference under same / different external randomness; non-trivial = programs with a full opening".into();
    let start = rep.start;
    let mut skipped = 0u64;
    for (ci, curve) in CURVES.iter().enumerate() {
        let sub: Vec<&Program> = progs.iter().enumerate().filter(|(i, p)| progs.len() < 5 || (o.tier == Tier::Thorough && p.p1.len() < 3) || i % 3 == ci).map(|(_, p)| p).collect();
        let res: Vec<Option<Out>> = with_curve!(*curve, G => {
            let env = Env::<G>::new(64);
            par_run(&sub, start, o.budget, |_, p| check_program::<G>(&env, p, o.seed))
        });
        for (p, r) in sub.iter().zip(res) {
            match r {
                None => skipped += 1,
                Some(out) => {
                    rep.evaluations += 1;
                    if out.full_opening {
                        rep.nontrivial += 1;
                        rep.count("full opening", 1);
                        rep.count("draws attributed", out.attributed as u64);
                    } else {
                        rep.count("partial (witness commitments, distinctness, keying, seeds)", 1);
                    }
                    rep.count("draws", out.draws as u64);
                    if let Some(why) = out.precondition {
                        rep.count(&format!("precondition: {}", why), 1);
                    }
                    for (e, ob) in out.bad {
                        let case = json!({"curve": curve, "program": p.name(), "check": e});
                        rep.count("violation", 1);
                        rep.violation(Violation { key: case.clone(), case, expected: e, observed: ob, note: "blinding structure".into() });
                    }
                }
            }
        }
    }
    if skipped > 0 {
        rep.caps_hit.push(format!("time budget reached: {} programs skipped", skipped));
    }
    rep.exhaustive = skipped == 0;
    for p in pick(&progs) {
        rep.sample(json!({"program": p.name()}));
    }
    rep.assumptions = vec!["decides the algebraic structure of the blinding, not computational indistinguishability".into(), "draws are recovered by replaying the recorded RNG bytes into the field sampler".into()];
    rep.finish()
}
