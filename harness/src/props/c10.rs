//! C10 inner-product argument accepts exactly the correct openings, for all lengths 2^k.
use crate::alphabet::{rho, val3};
use crate::curves::{pt_bytes, sc_bytes, Cv, CURVES};
use crate::evidence::{guarded, Report, Violation};
use crate::props::common::*;
use crate::recorder::{record_guarded, scalar_from_challenge, Event};
use crate::with_curve;
use ark_bulletproofs::verif_hooks::InnerProductProof;
use ark_bulletproofs::{BulletproofGens, PedersenGens};
use ark_ec::{AffineRepr, CurveGroup};
use ark_ff::{Field, One, Zero};
use ark_serialize::{CanonicalDeserialize, CanonicalSerialize};
use merlin::Transcript;
use serde_json::{json, Value};

#[derive(Clone)]
pub struct Ipp<G: AffineRepr> {
    pub l: Vec<G>,
    pub r: Vec<G>,
    pub a: G::ScalarField,
    pub b: G::ScalarField,
}
impl<G: AffineRepr> Ipp<G> {
    pub fn from_real(p: &InnerProductProof<G>) -> Self {
        let mut bytes = vec![];
        p.serialize_compressed(&mut bytes).unwrap();
        let mut cur = &bytes[..];
        let l = Vec::<G>::deserialize_compressed(&mut cur).unwrap();
        let r = Vec::<G>::deserialize_compressed(&mut cur).unwrap();
        let a = G::ScalarField::deserialize_compressed(&mut cur).unwrap();
        let b = G::ScalarField::deserialize_compressed(&mut cur).unwrap();
        Ipp { l, r, a, b }
    }
    pub fn to_real(&self) -> InnerProductProof<G> {
        let mut bytes = vec![];
        bytes.extend((self.l.len() as u64).to_le_bytes());
        for p in &self.l {
            bytes.extend(pt_bytes(p));
        }
        bytes.extend((self.r.len() as u64).to_le_bytes());
        for p in &self.r {
            bytes.extend(pt_bytes(p));
        }
        bytes.extend(sc_bytes(&self.a));
        bytes.extend(sc_bytes(&self.b));
        InnerProductProof::<G>::deserialize_compressed(&bytes[..]).expect("assemble ipp proof")
    }
}

/// The statement a verification call is made against.
#[derive(Clone)]
pub struct Stmt<G: AffineRepr> {
    pub n: usize,
    pub gf: Vec<G::ScalarField>,
    pub hf: Vec<G::ScalarField>,
    pub p: G,
    pub q: G,
    pub g: Vec<G>,
    pub h: Vec<G>,
}

/// Explicit-folding reference verdict, with the challenges the real run squeezed.
pub fn reference<G: AffineRepr>(st: &Stmt<G>, pr: &Ipp<G>, us: &[G::ScalarField]) -> Result<bool, String> {
    let k = pr.l.len();
    if pr.r.len() != k || k >= 32 || st.n != (1usize << k) {
        return Ok(false);
    }
    if st.g.len() != st.n || st.h.len() != st.n {
        return Err("reference: generator vectors do not match n".into());
    }
    let mut g: Vec<G::Group> = st.g.iter().zip(st.gf.iter()).map(|(p, f)| p.into_group() * f).collect();
    let mut h: Vec<G::Group> = st.h.iter().zip(st.hf.iter()).map(|(p, f)| p.into_group() * f).collect();
    let mut p = st.p.into_group();
    for j in 0..k {
        if pr.l[j].is_zero() || pr.r[j].is_zero() {
            return Ok(false); // rejected by design
        }
        let u = match us.get(j) {
            Some(u) => *u,
            None => return Err(format!("reference needs challenge {} but the real run squeezed only {}", j, us.len())),
        };
        let ui = u.inverse().ok_or("zero challenge")?;
        p = pr.l[j].into_group() * (u * u) + p + pr.r[j].into_group() * (ui * ui);
        let m = g.len() / 2;
        let mut g2 = Vec::with_capacity(m);
        let mut h2 = Vec::with_capacity(m);
        for i in 0..m {
            g2.push(g[i] * ui + g[m + i] * u);
            h2.push(h[i] * u + h[m + i] * ui);
        }
        g = g2;
        h = h2;
    }
    let rhs = g[0] * pr.a + h[0] * pr.b + st.q.into_group() * (pr.a * pr.b);
    Ok(p == rhs)
}

/// Run the real verify under recording; returns (verdict, challenges squeezed).
pub fn real_verify<G: Cv>(st: &Stmt<G>, pr: &Ipp<G>, claimed_n: usize) -> Result<(bool, Vec<G::ScalarField>), String> {
    let real = pr.to_real();
    let (res, ev) = record_guarded(|| {
        let mut t = Transcript::new(b"ipp-check");
        real.verify(claimed_n, &mut t, st.gf.iter(), st.hf.iter(), &st.p, &st.q, &st.g, &st.h).is_ok()
    });
    let us: Vec<G::ScalarField> = ev
        .iter()
        .filter_map(|e| match e {
            Event::Challenge { out, .. } => Some(scalar_from_challenge::<G::ScalarField>(out)),
            _ => None,
        })
        .collect();
    res.map(|ok| (ok, us))
}

#[derive(Clone, Debug)]
pub struct Case {
    pub k: usize,
    pub a_desc: String,
    pub a: Vec<usize>, // indices into the scalar table
    pub b: Vec<usize>,
    pub pattern: usize,
}

pub const PATTERNS: [&str; 4] = ["all ones", "ones then u", "powers of y^-1 times (ones then u)", "alternating 1,c"];

fn factors<G: Cv>(n: usize, pattern: usize, seed: u64) -> (Vec<G::ScalarField>, Vec<G::ScalarField>) {
    let one = G::ScalarField::one();
    let u = rho::<G::ScalarField>(seed, "c10-u");
    let y = rho::<G::ScalarField>(seed, "c10-y");
    let yi = y.inverse().unwrap();
    let n1 = n / 2 + n % 2;
    let ones_then_u: Vec<G::ScalarField> = (0..n).map(|i| if i < n1 && n > 1 { one } else if n == 1 { one } else { u }).collect();
    match pattern {
        0 => (vec![one; n], vec![one; n]),
        1 => (ones_then_u.clone(), ones_then_u),
        2 => {
            let mut acc = one;
            let hf = ones_then_u
                .iter()
                .map(|f| {
                    let v = acc * f;
                    acc *= yi;
                    v
                })
                .collect();
            (ones_then_u, hf)
        }
        _ => ((0..n).map(|i| if i % 2 == 0 { one } else { u }).collect(), (0..n).map(|i| if i % 2 == 1 { one } else { y }).collect()),
    }
}

/// scalar table for vectors: 0, 1, rho, and per-position dense values
fn scalar<G: Cv>(idx: usize, pos: usize, seed: u64) -> G::ScalarField {
    match idx {
        0 => G::ScalarField::zero(),
        1 => G::ScalarField::one(),
        2 => val3::<G::ScalarField>(seed)[2],
        _ => rho::<G::ScalarField>(seed, &format!("c10-dense-{}-{}", idx, pos)),
    }
}

pub fn cases(tier: Tier) -> Vec<Case> {
    let mut out = vec![];
    let kmax = if tier == Tier::Quick { 5 } else { 7 };
    for k in 0..=kmax {
        let n = 1usize << k;
        let pats: Vec<usize> = if n <= 2 { vec![0, 1, 2, 3] } else { vec![0, 1, 2] };
        if n <= 2 || (n == 4 && tier == Tier::Thorough) {
            for a in cartesian(3, n) {
                for b in cartesian(3, n) {
                    for p in &pats {
                        out.push(Case { k, a_desc: "VAL3^n x VAL3^n".into(), a: a.clone(), b: b.clone(), pattern: *p });
                    }
                }
            }
        } else if n == 4 {
            // quick: each side exhaustive over VAL3^4 against a dense other side
            for a in cartesian(3, n) {
                for p in &pats {
                    out.push(Case { k, a_desc: "VAL3^4 x dense".into(), a: a.clone(), b: vec![3; n], pattern: *p });
                    out.push(Case { k, a_desc: "dense x VAL3^4".into(), a: vec![4; n], b: a.clone(), pattern: *p });
                }
            }
        }
        if n == 8 && tier == Tier::Thorough {
            // every zero pattern of a and of b (dense elsewhere), unit factors and the R1CS pattern
            for za in 0u32..256 {
                for zb in (0u32..256).step_by(5) {
                    let a: Vec<usize> = (0..8).map(|i| if za & (1 << i) != 0 { 0 } else { 3 }).collect();
                    let b: Vec<usize> = (0..8).map(|i| if zb & (1 << i) != 0 { 0 } else { 4 }).collect();
                    out.push(Case { k, a_desc: "zero patterns (n=8)".into(), a, b, pattern: ((za + zb) % 3) as usize });
                }
            }
        }
        if n >= 4 {
            for p in &pats {
                let dense_a = vec![3; n];
                let dense_b = vec![4; n];
                out.push(Case { k, a_desc: "dense".into(), a: dense_a.clone(), b: dense_b.clone(), pattern: *p });
                out.push(Case { k, a_desc: "all ones".into(), a: vec![1; n], b: vec![1; n], pattern: *p });
                let lower0: Vec<usize> = (0..n).map(|i| if i < n / 2 { 0 } else { 3 }).collect();
                let upper0: Vec<usize> = (0..n).map(|i| if i >= n / 2 { 0 } else { 3 }).collect();
                out.push(Case { k, a_desc: "zero lower half".into(), a: lower0.clone(), b: dense_b.clone(), pattern: *p });
                out.push(Case { k, a_desc: "zero upper half".into(), a: upper0.clone(), b: dense_b.clone(), pattern: *p });
                out.push(Case { k, a_desc: "b zero lower half".into(), a: dense_a.clone(), b: lower0, pattern: *p });
                out.push(Case { k, a_desc: "b zero upper half".into(), a: dense_a.clone(), b: upper0, pattern: *p });
                for pos in 0..n {
                    let hot: Vec<usize> = (0..n).map(|i| if i == pos { 1 } else { 0 }).collect();
                    out.push(Case { k, a_desc: format!("one-hot a[{}]", pos), a: hot.clone(), b: dense_b.clone(), pattern: *p });
                    out.push(Case { k, a_desc: format!("one-hot b[{}]", pos), a: dense_a.clone(), b: hot, pattern: *p });
                }
            }
        }
    }
    out
}

#[derive(Default)]
pub struct Out {
    pub verifies: u64,
    pub hist: Vec<(String, u64)>,
    pub bad: Vec<(String, String, String)>,
}

pub fn run_case<G: Cv>(gens: &BulletproofGens<G>, pc: &PedersenGens<G>, c: &Case, seed: u64, deviations: bool) -> Out {
    let mut out = Out::default();
    let n = 1usize << c.k;
    let a: Vec<G::ScalarField> = c.a.iter().enumerate().map(|(i, x)| scalar::<G>(*x, i, seed)).collect();
    let b: Vec<G::ScalarField> = c.b.iter().enumerate().map(|(i, x)| scalar::<G>(*x, i + 1000, seed)).collect();
    let (gf, hf) = factors::<G>(n, c.pattern, seed);
    let g: Vec<G> = gens.G(n, 1).cloned().collect();
    let h: Vec<G> = gens.H(n, 1).cloned().collect();
    let q = (pc.B.into_group() * rho::<G::ScalarField>(seed, "c10-w")).into_affine();
    // P = <a, gf o G> + <b, hf o H> + <a,b> Q  (plain loops)
    let mut p = G::Group::zero();
    let mut ab = G::ScalarField::zero();
    for i in 0..n {
        p += g[i].into_group() * (a[i] * gf[i]);
        p += h[i].into_group() * (b[i] * hf[i]);
        ab += a[i] * b[i];
    }
    p += q.into_group() * ab;
    let st = Stmt { n, gf: gf.clone(), hf: hf.clone(), p: p.into_affine(), q, g: g.clone(), h: h.clone() };
    let created = guarded(|| {
        let mut t = Transcript::new(b"ipp-check");
        InnerProductProof::<G>::create(&mut t, &q, &gf, &hf, g.clone(), h.clone(), a.clone(), b.clone())
    });
    let real = match created {
        Ok(p) => p,
        Err(m) => {
            out.bad.push(("create".into(), "returns a proof".into(), format!("panicked: {}", m)));
            return out;
        }
    };
    let pr = Ipp::<G>::from_real(&real);
    if pr.l.len() != c.k || pr.r.len() != c.k {
        out.bad.push(("round count".into(), format!("{} rounds", c.k), format!("|L|={} |R|={}", pr.l.len(), pr.r.len())));
    }
    let degenerate = pr.l.iter().chain(pr.r.iter()).any(|x| x.is_zero());
    let mut check = |name: &str, st: &Stmt<G>, pr: &Ipp<G>, claimed: usize, must_reject: bool, out: &mut Out| {
        out.verifies += 1;
        match real_verify::<G>(st, pr, claimed) {
            Err(m) => out.bad.push((name.into(), "verify returns".into(), format!("panicked: {}", m))),
            Ok((got, us)) => {
                let mut st2 = st.clone();
                st2.n = claimed;
                match reference::<G>(&st2, pr, &us) {
                    Err(e) => out.bad.push((name.into(), "reference verdict computable".into(), e)),
                    Ok(want) => {
                        if got != want {
                            out.bad.push((name.into(), format!("verdict {} (explicit folding)", want), format!("verdict {}", got)));
                        } else if must_reject && got {
                            out.bad.push((name.into(), "rejected".into(), "accepted (by the real verifier and by explicit folding)".into()));
                        }
                        out.hist.push((format!("{}/{}", name, if got { "accept" } else { "reject" }), 1));
                    }
                }
            }
        }
    };
    // depth 0: the honest proof against the correct P
    {
        out.verifies += 1;
        match real_verify::<G>(&st, &pr, n) {
            Err(m) => out.bad.push(("honest".into(), "verify returns".into(), format!("panicked: {}", m))),
            Ok((got, us)) => match reference::<G>(&st, &pr, &us) {
                Err(e) => out.bad.push(("honest".into(), "reference verdict computable".into(), e)),
                Ok(want) => {
                    if got != want {
                        out.bad.push(("honest".into(), format!("verdict {} (explicit folding)", want), format!("verdict {}", got)));
                    }
                    if want == degenerate {
                        out.bad.push(("honest".into(), "accepted exactly when no round's cross-term is the identity".into(), format!("explicit folding verdict {} with identity cross-term: {}", want, degenerate)));
                    }
                    out.hist.push((format!("honest/{}", if got { "accept" } else if degenerate { "reject (identity cross-term, by design)" } else { "reject" }), 1));
                }
            },
        }
    }
    if !deviations {
        return out;
    }
    let one = G::ScalarField::one();
    // wrong product
    let mut s2 = st.clone();
    s2.p = (st.p.into_group() + q).into_affine();
    check("P+Q", &s2, &pr, n, true, &mut out);
    for (name, da, db) in [("a+1", one, G::ScalarField::zero()), ("a-1", -one, G::ScalarField::zero()), ("b+1", G::ScalarField::zero(), one), ("b-1", G::ScalarField::zero(), -one)] {
        let mut p2 = pr.clone();
        p2.a += da;
        p2.b += db;
        check(name, &st, &p2, n, true, &mut out);
    }
    if c.k >= 1 {
        let mut p2 = pr.clone();
        p2.l.pop();
        p2.r.pop();
        check("drop last round", &st, &p2, n, true, &mut out);
        let mut p2 = pr.clone();
        p2.l.push(pr.l[0]);
        p2.r.push(pr.r[0]);
        check("duplicate a round", &st, &p2, n, true, &mut out);
        let mut p2 = pr.clone();
        p2.l[0] = pr.r[0];
        p2.r[0] = pr.l[0];
        check("swap L0<->R0", &st, &p2, n, false, &mut out);
    }
    if c.k >= 2 {
        let mut p2 = pr.clone();
        p2.l.swap(0, 1);
        p2.r.swap(0, 1);
        check("swap rounds 0,1", &st, &p2, n, false, &mut out);
    }
    {
        let mut s2 = st.clone();
        s2.gf[n - 1] += one;
        check("G factor altered", &s2, &pr, n, false, &mut out);
        let mut s2 = st.clone();
        s2.hf[0] += one;
        check("H factor altered", &s2, &pr, n, false, &mut out);
    }
    let claims: Vec<usize> = if n <= 16 { (0..=2 * n + 1).filter(|m| *m != n).collect() } else { vec![0, n / 2, n / 2 + 1, n - 1, n + 1, 2 * n] };
    for claimed in claims {
        // the statement vectors keep length n; only the claimed length differs
        out.verifies += 1;
        let real = pr.to_real();
        let r = guarded(|| {
            let mut t = Transcript::new(b"ipp-check");
            real.verify(claimed, &mut t, st.gf.iter(), st.hf.iter(), &st.p, &st.q, &st.g, &st.h).is_ok()
        });
        match r {
            Err(m) => out.bad.push((format!("claimed n={}", claimed), "Err".into(), format!("panicked: {}", m))),
            Ok(true) => out.bad.push((format!("claimed n={}", claimed), "rejected (length does not match the rounds)".into(), "accepted".into())),
            Ok(false) => out.hist.push(("claimed length mismatch/reject".into(), 1)),
        }
    }
    out
}

pub fn main(o: &Opts) -> i32 {
    let mut rep = Report::new("C10", o.tier.name(), o.seed, "exploration");
    let mut cs = cases(o.tier);
    if let Some(path) = &o.replay {
        let v: Value = serde_json::from_str(&std::fs::read_to_string(path).unwrap()).unwrap();
        let want = v["case"].clone();
        cs.retain(|c| json!(c.a) == want["a"] && json!(c.b) == want["b"] && json!(c.pattern) == want["pattern"] && json!(c.k) == want["k"]);
    }
    rep.bounds = json!({"k": if o.tier == Tier::Quick { "0..=5" } else { "0..=7" }, "exhaustive_vectors": if o.tier == Tier::Quick { "n<=2: VAL3^n x VAL3^n; n=4: VAL3^4 x dense and dense x VAL3^4" } else { "n<=4: VAL3^n x VAL3^n" },
        "structured_vectors_n>=4": ["dense", "all ones", "zero lower/upper half (a and b)", "every one-hot position (a and b)"], "factor_patterns": PATTERNS,
        "deviations": ["P+Q", "a+-1", "b+-1", "drop last round", "duplicate a round", "swap L0<->R0", "swap rounds", "one G factor altered", "one H factor altered", "every claimed length 0..=2n+1 other than n (n <= 16), {0, n/2, n/2+1, n-1, n+1, 2n} above"], "cases": cs.len()});
    rep.curves = CURVES.iter().map(|s| s.to_string()).collect();
    rep.rule = "create a proof with the real code for every (k, a, b, factors) case, verify it with the real code under the recording transcript, and compare every verdict (honest and each single deviation) with an explicit-folding reference that uses the recorded challenges; non-trivial = verify calls whose base is not degenerate".into();
    let start = rep.start;
    let mut skipped = 0u64;
    for (ci, curve) in CURVES.iter().enumerate() {
        let sub: Vec<&Case> = cs.iter().enumerate().filter(|(i, c)| c.k <= 1 || o.tier == Tier::Thorough && c.k != 2 || i % 3 == ci || cs.len() < 5).map(|(_, c)| c).collect();
        let res: Vec<Option<Out>> = with_curve!(*curve, G => {
            let gens = BulletproofGens::<G>::new(128, 1);
            let pc = PedersenGens::<G>::default();
            par_run(&sub, start, o.budget, |i, c| run_case::<G>(&gens, &pc, c, o.seed, c.k != 2 || o.tier == Tier::Quick || i % 4 == 0))
        });
        for (c, r) in sub.iter().zip(res) {
            match r {
                None => skipped += 1,
                Some(out) => {
                    rep.evaluations += out.verifies;
                    rep.nontrivial += out.verifies;
                    for (k, n) in out.hist {
                        rep.count(&k, n);
                    }
                    for (what, e, ob) in out.bad {
                        let case = json!({"curve": curve, "k": c.k, "a": c.a, "b": c.b, "pattern": c.pattern, "vectors": c.a_desc, "check": what});
                        rep.count("violation", 1);
                        rep.violation(Violation { key: case.clone(), case, expected: e, observed: ob, note: "inner-product argument".into() });
                    }
                }
            }
        }
    }
    if skipped > 0 {
        rep.caps_hit.push(format!("time budget reached: {} cases skipped", skipped));
    }
    rep.exhaustive = skipped == 0;
    for c in pick(&cs) {
        rep.sample(json!({"k": c.k, "vectors": c.a_desc, "a": c.a, "b": c.b, "factors": PATTERNS[c.pattern]}));
    }
    rep.assumptions = vec!["scalar table {0, 1, rho, dense seed-derived}; challenge scalars are re-derived from the recorded 32-byte outputs the same way the crate derives them".into()];
    rep.finish()
}
