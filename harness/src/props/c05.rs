//! C05 statement and context binding: a proof verifies only for its own statement.
use crate::alphabet::{deltas, DELTA_NAMES};
use crate::curves::{Cv, CURVES};
use crate::evidence::{guarded, Report, Violation};
use crate::program::{self, Dev, Env, Op, Program};
use crate::props::common::*;
use crate::with_curve;
use ark_bulletproofs::r1cs::R1CSProof;
use ark_bulletproofs::PedersenGens;
use ark_ec::{AffineRepr, CurveGroup};
use serde_json::{json, Value};

#[derive(Clone, Debug, PartialEq)]
pub enum SDev {
    CommitAddB(usize),
    CommitAddBb(usize),
    CommitNeg(usize),
    CommitCopy { dst: usize, src: usize },
    CommitIdentity(usize),
    CommitAddT8(usize),
    CommitExtra,
    CommitExtraCopy(usize),
    CommitDrop,
    CommitSwapAdj(usize),
    KConst(usize, usize),
    KCoef(usize, usize, usize),
    Label,
    TChange(usize),
    TRemove(usize),
    TInsert(usize),
    BlindBase,
    ValueBase,
}
impl SDev {
    pub fn name(&self) -> String {
        match self {
            SDev::CommitAddB(j) => format!("commitment {} += B", j),
            SDev::CommitAddBb(j) => format!("commitment {} += B_blinding", j),
            SDev::CommitNeg(j) => format!("commitment {} negated", j),
            SDev::CommitCopy { dst, src } => format!("commitment {} <- commitment {}", dst, src),
            SDev::CommitIdentity(j) => format!("commitment {} <- identity", j),
            SDev::CommitAddT8(j) => format!("commitment {} += T8 (point of order 8)", j),
            SDev::CommitExtra => "extra commitment appended".into(),
            SDev::CommitExtraCopy(j) => format!("extra commitment appended, equal to commitment {}", j),
            SDev::CommitDrop => "last commitment dropped".into(),
            SDev::CommitSwapAdj(j) => format!("commitments {} and {} swapped", j, j + 1),
            SDev::KConst(k, d) => format!("constraint {} constant += {}", k, DELTA_NAMES[*d]),
            SDev::KCoef(k, t, d) => format!("constraint {} coefficient {} += {}", k, t, DELTA_NAMES[*d]),
            SDev::Label => "transcript label changed".into(),
            SDev::TChange(t) => format!("app data {} changed", t),
            SDev::TRemove(t) => format!("app data {} removed", t),
            SDev::TInsert(at) => format!("extra app data before op {}", at),
            SDev::BlindBase => "B_blinding <- 2*B_blinding".into(),
            SDev::ValueBase => "B <- 2*B".into(),
        }
    }
}

pub fn sdevs(p: &Program, ncommit: usize, kterms: &[usize]) -> Vec<SDev> {
    sdevs_t(p, ncommit, kterms, false)
}
pub fn sdevs_t(p: &Program, ncommit: usize, kterms: &[usize], torsion: bool) -> Vec<SDev> {
    let mut out = vec![];
    for j in 0..ncommit {
        if torsion {
            out.push(SDev::CommitAddT8(j));
        }
        out.push(SDev::CommitAddB(j));
        out.push(SDev::CommitAddBb(j));
        out.push(SDev::CommitNeg(j));
        out.push(SDev::CommitIdentity(j));
        for k in 0..ncommit {
            if k != j {
                out.push(SDev::CommitCopy { dst: j, src: k });
            }
        }
        if j + 1 < ncommit {
            out.push(SDev::CommitSwapAdj(j));
        }
    }
    out.push(SDev::CommitExtra);
    for j in 0..ncommit {
        out.push(SDev::CommitExtraCopy(j));
    }
    if ncommit > 0 {
        out.push(SDev::CommitDrop);
    }
    for (k, nt) in kterms.iter().enumerate() {
        for d in 0..3 {
            out.push(SDev::KConst(k, d));
        }
        for t in 0..*nt {
            out.push(SDev::KCoef(k, t, 0));
            out.push(SDev::KCoef(k, t, 2));
        }
    }
    out.push(SDev::Label);
    for t in 0..p.t_ops() {
        out.push(SDev::TChange(t));
        out.push(SDev::TRemove(t));
    }
    for at in 0..=p.total_ops() {
        out.push(SDev::TInsert(at));
    }
    out.push(SDev::BlindBase);
    out.push(SDev::ValueBase);
    out
}

#[derive(Debug)]
pub enum Out {
    Rejected,
    DontCare(&'static str, bool),
    Accepted,
    Panic(String),
}

pub struct BaseRun<G: Cv> {
    pub prog: Program,
    pub comms: Vec<G>,
    pub proof: R1CSProof<G>,
    pub honest: crate::program::Assign<G::ScalarField>,
    pub gates: usize,
    pub kterms: Vec<usize>,
}

pub fn make_base<G: Cv>(env: &Env<G>, prog: &Program, seed: u64) -> Result<BaseRun<G>, String> {
    let pr = guarded(|| program::prove::<G>(prog, &env.pc, &env.bp, seed, "c05", Dev::None))?;
    let _bytes = pr.proof.clone()?;
    if !pr.ctx.problems.is_empty() {
        return Err("prover and reference model disagree on the variables handed out (C16's business)".into());
    }
    let proof = pr.obj.clone().ok_or("no proof object")?;
    // the verifier's run on the *unmodified* statement must agree with the reference model on the
    // variables handed out (otherwise the divergence is C16's business, whatever the deviation);
    // a divergence that appears only under a deviation is caused by that deviation and is judged
    let vr0 = guarded(|| program::verify::<G>(prog, &env.pc, &env.bp, seed, Dev::None, &pr.commitments, &proof, program::LABEL))?;
    if !vr0.ctx.problems.is_empty() {
        return Err("verifier and reference model disagree on the variables handed out for the unmodified statement (C16's business)".into());
    }
    let rc = &pr.ctx.refcs;
    let kterms: Vec<usize> = rc.k_terms.clone();
    Ok(BaseRun { prog: prog.clone(), comms: pr.commitments, proof, honest: rc.honest.clone(), gates: rc.gates(), kterms })
}

pub fn run_dev<G: Cv>(env: &Env<G>, b: &BaseRun<G>, d: &SDev, seed: u64) -> Out {
    let mut vprog = b.prog.clone();
    let mut comms = b.comms.clone();
    let mut dev = Dev::None;
    let mut label = program::LABEL;
    let mut pc: PedersenGens<G> = env.pc;
    let dl = deltas::<G::ScalarField>(seed);
    let mut dont_care: Option<&'static str> = None;
    match d {
        SDev::CommitAddB(j) => comms[*j] = (comms[*j].into_group() + env.pc.B).into_affine(),
        SDev::CommitAddBb(j) => comms[*j] = (comms[*j].into_group() + env.pc.B_blinding).into_affine(),
        SDev::CommitNeg(j) => comms[*j] = (-comms[*j].into_group()).into_affine(),
        SDev::CommitIdentity(j) => comms[*j] = G::zero(),
        SDev::CommitAddT8(j) => comms[*j] = (comms[*j].into_group() + G::torsion8().expect("torsion point")).into_affine(),
        SDev::CommitCopy { dst, src } => {
            if comms[*dst] == comms[*src] {
                dont_care = Some("equal commitments");
            }
            comms[*dst] = comms[*src]
        }
        SDev::CommitSwapAdj(j) => {
            if comms[*j] == comms[*j + 1] {
                dont_care = Some("equal commitments");
            }
            comms.swap(*j, *j + 1)
        }
        SDev::CommitExtra => {
            vprog.p1.push(Op::C);
            comms.push(env.pc.commit(G::ScalarField::from(5u64), G::ScalarField::from(11u64)));
        }
        SDev::CommitExtraCopy(j) => {
            vprog.p1.push(Op::C);
            let c = comms[*j];
            comms.push(c);
        }
        SDev::CommitDrop => {
            let pos = vprog.p1.iter().rposition(|o| *o == Op::C || *o == Op::CD || *o == Op::C0).unwrap();
            vprog.p1.remove(pos);
            comms.pop();
        }
        SDev::KConst(k, di) => dev = Dev::KConst { k: *k, delta: dl[*di], both: false },
        SDev::KCoef(k, t, di) => dev = Dev::KCoef { k: *k, term: *t, delta: dl[*di] },
        SDev::Label => label = program::LABEL_ALT,
        SDev::TChange(t) => dev = Dev::TChange { t: *t },
        SDev::TRemove(t) => dev = Dev::TRemove { t: *t },
        SDev::TInsert(at) => dev = Dev::TInsert { at: *at },
        SDev::BlindBase => pc.B_blinding = (pc.B_blinding.into_group() + pc.B_blinding).into_affine(),
        SDev::ValueBase => {
            pc.B = (pc.B.into_group() + pc.B).into_affine();
            if b.gates == 0 {
                dont_care = Some("value base changed on a circuit without gates");
            }
        }
    }
    if matches!(d, SDev::CommitAddB(_) | SDev::CommitAddBb(_) | SDev::CommitNeg(_) | SDev::CommitIdentity(_) | SDev::CommitAddT8(_)) && comms == b.comms {
        // e.g. negating a commitment that is the identity: the statement did not change
        dont_care = Some("the deviation leaves the commitment list unchanged");
    }
    let vr = match guarded(|| program::verify::<G>(&vprog, &pc, &env.bp, seed, dev.clone(), &comms, &b.proof, label)) {
        Ok(v) => v,
        // a panicking verifier did not accept anything (panics are C08's business)
        Err(_) => return Out::DontCare("verifier panicked (C08's business)", false),
    };
    // a constraint change that the committed values (and the rest of the witness) still satisfy
    if matches!(d, SDev::KConst(..) | SDev::KCoef(..)) {
        let rc = &vr.ctx.refcs;
        if rc.honest == b.honest && rc.violated_constraints(&b.honest).is_empty() {
            dont_care = Some("changed constraint still satisfied by the witness");
        }
    }
    let accepted = vr.result.is_ok();
    match (dont_care, accepted) {
        (Some(why), a) => Out::DontCare(why, a),
        (None, true) => Out::Accepted,
        (None, false) => Out::Rejected,
    }
}

pub fn main(o: &Opts) -> i32 {
    let mut rep = Report::new("C05", o.tier.name(), o.seed, "exploration");
    let replay: Option<Value> = o.replay.as_ref().map(|p| serde_json::from_str(&std::fs::read_to_string(p).unwrap()).unwrap());
    let (mut progs, desc): (Vec<Program>, &str) = match o.tier {
        Tier::Quick => (program_space2(2, 1, 0), "P(2,1) without second closures + S(3)"),
        Tier::Thorough => (program_space(3, 1), "P(3,1) + S(4)"),
    };
    progs.extend(size_family(if o.tier == Tier::Quick { 3 } else { 4 }).into_iter().map(|x| x.3));
    progs.extend(extra_programs());
    // multi-commitment bases (the letter alphabet rarely has more than two commitments)
    for s in ["C C C Kd Kb", "C C M Kd R[Z Kc T]", "T C T C Kd T", "C C0 Ks", "C0 C Ks M Kd", "C C0 C Ks R[Z Ks]"] {
        progs.push(Program::parse(s).unwrap());
    }
    if let Some(r) = &replay {
        progs.retain(|p| Some(p.name().as_str()) == r["case"]["program"].as_str());
    }
    rep.bounds = json!({"bases": desc, "programs": progs.len(), "deviations": "every single verifier-side deviation: each commitment += B, += B_blinding, += a point of order 8 (cofactor-8 curve), negated, <- identity, <- every other commitment, adjacent swap, extra (fresh, and a copy of each existing one), dropped; each explicit constraint constant += delta (3 deltas), each coefficient += delta (2 deltas); label; each app-data op changed/removed, extra app data at every op position; B_blinding doubled; B doubled"});
    rep.curves = CURVES.iter().map(|s| s.to_string()).collect();
    rep.rule = "for every honest (program, proof) base and every single verifier-side statement/context deviation the real verifier must reject, except the statement's own don't-cares decided by the reference model (changed constraint still satisfied by the witness, equal commitments exchanged, value base changed on a gate-free circuit); non-trivial = deviations that are not don't-cares".into();
    let start = rep.start;
    let mut skipped = 0;
    for (ci, curve) in CURVES.iter().enumerate() {
        if let Some(r) = &replay {
            if r["case"]["curve"].as_str() != Some(curve) {
                continue;
            }
        }
        let results: Vec<Option<Vec<(String, String, Out)>>> = with_curve!(*curve, G => {
            let env = Env::<G>::new(64);
            let sub: Vec<&Program> = progs.iter().enumerate().filter(|(i, p)| replay.is_some() || o.tier == Tier::Thorough && p.p1.len() < 3 || i % 3 == ci).map(|(_, p)| p).collect();
            par_run(&sub, start, o.budget, |_, p| {
                let b = match make_base::<G>(&env, p, o.seed) {
                    Ok(b) => b,
                    // no honest base proof: nothing to bind (completeness is C01's business)
                    Err(_) => return vec![(p.name(), "base".to_string(), Out::DontCare("no usable honest base (C01/C16's business)", false))],
                };
                sdevs_t(p, b.comms.len(), &b.kterms, G::torsion8().is_some()).into_iter().map(|d| (p.name(), d.name(), run_dev::<G>(&env, &b, &d, o.seed))).collect()
            })
        });
        for r in results {
            match r {
                None => skipped += 1,
                Some(v) => {
                    for (pname, dname, out) in v {
                        rep.evaluations += 1;
                        let case = json!({"curve": curve, "program": pname, "deviation": dname});
                        if let Some(r) = &replay {
                            if r["case"]["deviation"].as_str() != Some(&dname) {
                                continue;
                            }
                        }
                        if rep.evaluations % 30011 == 1 {
                            rep.sample(case.clone());
                        }
                        let class = dname.split(' ').next().unwrap_or("").to_string();
                        match out {
                            Out::Rejected => {
                                rep.nontrivial += 1;
                                rep.count(&format!("rejected/{}", class), 1);
                            }
                            Out::DontCare(why, acc) => rep.count(&format!("dont-care ({}) {}", why, if acc { "accepted" } else { "rejected" }), 1),
                            Out::Accepted => {
                                rep.count("violation", 1);
                                rep.violation(Violation { key: case.clone(), case, expected: "verify returns Err".into(), observed: "verify returned Ok".into(), note: "proof accepted for a different statement/context".into() });
                            }
                            Out::Panic(m) => {
                                rep.violation(Violation { key: case.clone(), case, expected: "verify returns Err".into(), observed: format!("panicked: {}", m), note: "".into() });
                            }
                        }
                    }
                }
            }
        }
    }
    if skipped > 0 {
        rep.caps_hit.push(format!("time budget reached: {} programs skipped", skipped));
    }
    rep.exhaustive = skipped == 0;
    rep.assumptions = vec!["statements range over points of the prime-order subgroup (commitments, Pedersen bases, generators); DESIGN 8.6 lesson 11 explains why the relations are not defined outside it".into(), "the only out-of-subgroup statement point in the alphabet is a torsion-shifted commitment (its encoding, hence the transcript, differs)".into()];
    rep.finish()
}
