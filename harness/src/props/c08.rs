//! C08 hostile proofs and byte strings yield errors, never panics or runaway memory.
//! All cases run in single-threaded child processes of this binary, so that an abort or an
//! allocation failure is attributed to one input.
use crate::alloc_count;
use crate::curves::{point_len, pt_bytes, Cv, CURVES};
use crate::evidence::{guarded, Report, Violation};
use crate::program::{self, build_verifier, Dev, Env, Program};
use crate::proofparts::Parts;
use crate::props::common::*;
use crate::with_curve;
use ark_bulletproofs::r1cs::{batch_verify, R1CSProof};
use ark_ec::AffineRepr;
use ark_ff::Zero;
use merlin::Transcript;
use serde_json::{json, Value};
use std::io::Write;

#[derive(Clone, Debug)]
pub struct Case {
    /// which base circuit (index into bases) the verifier is built for
    pub base: usize,
    pub desc: String,
    /// key class used for known-finding matching
    pub class: String,
    pub bytes: Vec<u8>,
    /// only decode (all short strings)
    pub decode_only: bool,
}

pub struct Base<G: Cv> {
    pub prog: Program,
    pub gates: usize,
    pub bytes: Vec<u8>,
    pub comms: Vec<G>,
    pub obj: R1CSProof<G>,
}

fn bases<G: Cv>(env: &Env<G>, seed: u64) -> Vec<Base<G>> {
    let mut out = vec![];
    for g in 0..=9usize {
        for two in [false, true] {
            if two && g == 0 {
                continue;
            }
            let (n1, n2) = if two { (g / 2, g - g / 2) } else { (g, 0) };
            let prog = size_program(Kind::M, n1, n2);
            let pr = program::prove::<G>(&prog, &env.pc, &env.bp, seed, "c08", Dev::None);
            let obj = pr.obj.clone().expect("base proof object");
            out.push(Base { prog, gates: g, bytes: pr.proof.expect("base proof"), comms: pr.commitments, obj });
        }
    }
    out
}

const LEN_PREFIXES: [u64; 8] = [u32::MAX as u64, 1 << 32, 1 << 63, u64::MAX, 1 << 20, 1 << 24, 41, 1000];

pub fn cases<G: Cv>(bs: &[Base<G>], tier: Tier) -> Vec<Case> {
    let mut out = vec![];
    let gmax = if tier == Tier::Quick { 6 } else { 9 };
    // (i) shape grid
    for (bi, b) in bs.iter().enumerate() {
        let parts = Parts::<G>::parse(&b.bytes).expect("parse base");
        let mut pool: Vec<G> = parts.l.iter().chain(parts.r.iter()).cloned().collect();
        if pool.is_empty() {
            pool.push(parts.pts[0]);
        }
        for l in 0..=gmax {
            for r in 0..=gmax {
                let mut p = parts.clone();
                p.l = (0..l).map(|i| if i < parts.l.len() { parts.l[i] } else { pool[i % pool.len()] }).collect();
                p.r = (0..r).map(|i| if i < parts.r.len() { parts.r[i] } else { pool[(i + 1) % pool.len()] }).collect();
                let class = if l > r { "|L|>|R|" } else if l < r { "|L|<|R|" } else { "|L|=|R|" };
                out.push(Case { base: bi, desc: format!("shape |L|={},|R|={} gates={}", l, r, b.gates), class: class.into(), bytes: p.to_bytes(), decode_only: false });
            }
        }
    }
    // (i') long point lists: round counts at and beyond the widths the verifier shifts by (1 << k)
    const LONG: [usize; 7] = [31, 32, 33, 40, 63, 64, 65];
    const SHORT: [usize; 3] = [0, 1, 3];
    for (bi, b) in bs.iter().enumerate() {
        if ![0usize, 1, 4].contains(&b.gates) || !b.prog.closures.is_empty() {
            continue;
        }
        let parts = Parts::<G>::parse(&b.bytes).expect("parse base");
        let mut pool: Vec<G> = parts.l.iter().chain(parts.r.iter()).cloned().collect();
        pool.push(parts.pts[0]);
        pool.push(parts.pts[2]);
        let mut pairs: Vec<(usize, usize)> = vec![];
        for l in LONG {
            for r in LONG {
                if tier == Tier::Thorough || l == r || (l, r) == (32, 33) || (l, r) == (33, 32) || (l, r) == (64, 31) {
                    pairs.push((l, r));
                }
            }
            for r in SHORT {
                pairs.push((l, r));
                pairs.push((r, l));
            }
        }
        for (l, r) in pairs {
            let mut p = parts.clone();
            p.l = (0..l).map(|i| if i < parts.l.len() { parts.l[i] } else { pool[i % pool.len()] }).collect();
            p.r = (0..r).map(|i| if i < parts.r.len() { parts.r[i] } else { pool[(i + 1) % pool.len()] }).collect();
            let class = if l > r { "|L|>|R|" } else if l < r { "|L|<|R|" } else { "|L|=|R|" };
            out.push(Case { base: bi, desc: format!("long shape |L|={},|R|={} gates={}", l, r, b.gates), class: class.into(), bytes: p.to_bytes(), decode_only: false });
        }
    }
    // (ii) identity / zero at every position (small bases)
    for (bi, b) in bs.iter().enumerate() {
        if ![1usize, 2, 4].contains(&b.gates) {
            continue;
        }
        let parts = Parts::<G>::parse(&b.bytes).expect("parse base");
        let k = parts.l.len();
        for i in 0..11 + 2 * k {
            let mut p = parts.clone();
            if i < 11 {
                p.pts[i] = G::zero();
            } else if i < 11 + k {
                p.l[i - 11] = G::zero();
            } else {
                p.r[i - 11 - k] = G::zero();
            }
            out.push(Case { base: bi, desc: format!("identity at point slot {} gates={}", i, b.gates), class: "identity".into(), bytes: p.to_bytes(), decode_only: false });
        }
        for i in 0..5 {
            let mut p = parts.clone();
            match i {
                0..=2 => p.sc[i] = G::ScalarField::zero(),
                3 => p.a = G::ScalarField::zero(),
                _ => p.b = G::ScalarField::zero(),
            }
            out.push(Case { base: bi, desc: format!("zero at scalar slot {} gates={}", i, b.gates), class: "zero-scalar".into(), bytes: p.to_bytes(), decode_only: false });
        }
        // everything identity / zero
        let mut p = parts.clone();
        for x in p.pts.iter_mut().chain(p.l.iter_mut()).chain(p.r.iter_mut()) {
            *x = G::zero();
        }
        for x in p.sc.iter_mut() {
            *x = G::ScalarField::zero();
        }
        p.a = G::ScalarField::zero();
        p.b = G::ScalarField::zero();
        out.push(Case { base: bi, desc: format!("all identity/zero gates={}", b.gates), class: "identity".into(), bytes: p.to_bytes(), decode_only: false });
    }
    // (iii) bytes
    let bi = bs.iter().position(|b| b.gates == 2 && b.prog.closures.is_empty()).unwrap();
    let valid = &bs[bi].bytes;
    out.push(Case { base: bi, desc: "empty string".into(), class: "short".into(), bytes: vec![], decode_only: true });
    for a in 0..=255u8 {
        out.push(Case { base: bi, desc: format!("string [{}]", a), class: "short".into(), bytes: vec![a], decode_only: true });
    }
    for a in 0..=255u8 {
        for b in 0..=255u8 {
            out.push(Case { base: bi, desc: format!("string [{},{}]", a, b), class: "short".into(), bytes: vec![a, b], decode_only: true });
        }
    }
    for n in 0..valid.len() {
        out.push(Case { base: bi, desc: format!("prefix of length {}", n), class: "prefix".into(), bytes: valid[..n].to_vec(), decode_only: false });
    }
    for pos in 0..valid.len() {
        let subs: Vec<u8> = match tier {
            Tier::Quick => vec![0x00, 0xff, valid[pos] ^ 1, valid[pos] ^ 0x80],
            Tier::Thorough => (0..=255u8).collect(),
        };
        for s in subs {
            if s == valid[pos] {
                continue;
            }
            let mut b = valid.clone();
            b[pos] = s;
            out.push(Case { base: bi, desc: format!("byte {} <- {:#04x}", pos, s), class: "substitution".into(), bytes: b, decode_only: false });
        }
    }
    let k = Parts::<G>::parse(valid).unwrap().l.len();
    for slot in 0..2 {
        let off = if slot == 0 { Parts::<G>::offset_l_count() } else { Parts::<G>::offset_r_count(k) };
        let vals: Vec<u64> = (0..=40u64).chain(LEN_PREFIXES.iter().cloned()).collect();
        for v in vals {
            let mut b = valid.clone();
            b[off..off + 8].copy_from_slice(&v.to_le_bytes());
            out.push(Case { base: bi, desc: format!("count slot {} <- {}", slot, v), class: "length-prefix".into(), bytes: b.clone(), decode_only: false });
            // and with enough trailing material that a small count could be honoured
            if v <= 40 {
                let mut b2 = b.clone();
                for _ in 0..42 {
                    b2.extend(pt_bytes(&G::generator()));
                }
                out.push(Case { base: bi, desc: format!("count slot {} <- {} with trailing points", slot, v), class: "length-prefix".into(), bytes: b2, decode_only: false });
            }
        }
    }
    for n in [1usize, 2, point_len::<G>(), 1000] {
        let mut b = valid.clone();
        b.extend(std::iter::repeat(0xa5u8).take(n));
        out.push(Case { base: bi, desc: format!("{} appended bytes", n), class: "appended".into(), bytes: b, decode_only: false });
    }
    out
}

/// Execute one case; returns a result line: status \t detail
fn run_case<G: Cv>(env: &Env<G>, bs: &[Base<G>], c: &Case, seed: u64) -> (String, String) {
    let base = alloc_count::reset_peak();
    let dec = guarded(|| R1CSProof::<G>::from_bytes(&c.bytes));
    let peak = alloc_count::peak_since(base);
    let limit = 8 * c.bytes.len() + 64 * 1024;
    let proof = match dec {
        Err(m) => return ("PANIC".into(), format!("from_bytes panicked: {}", m)),
        Ok(r) => {
            if peak > limit {
                return ("MEM".into(), format!("from_bytes peak {} bytes for a {}-byte input (limit {})", peak, c.bytes.len(), limit));
            }
            match r {
                Err(_) => return ("decode-err".into(), String::new()),
                Ok(p) => p,
            }
        }
    };
    if c.decode_only {
        return ("decoded".into(), String::new());
    }
    let b = &bs[c.base];
    let mut results = vec![];
    let v = guarded(|| program::verify::<G>(&b.prog, &env.pc, &env.bp, seed, Dev::None, &b.comms, &proof, program::LABEL).result.is_ok());
    match v {
        Err(m) => return ("PANIC".into(), format!("verify panicked: {}", m)),
        Ok(ok) => results.push(ok),
    }
    let valid = b.obj.clone();
    for order in 0..3 {
        let r = guarded(|| {
            let mut t1 = Transcript::new(program::LABEL);
            let mut t2 = Transcript::new(program::LABEL);
            let (v1, _c1) = build_verifier::<G, &mut Transcript>(&b.prog, &env.pc, &mut t1, seed, Dev::None, &b.comms);
            let (v2, _c2) = build_verifier::<G, &mut Transcript>(&b.prog, &env.pc, &mut t2, seed, Dev::None, &b.comms);
            let inst = match order {
                0 => vec![(v1, &proof)],
                1 => vec![(v1, &proof), (v2, &valid)],
                _ => vec![(v1, &valid), (v2, &proof)],
            };
            let mut rng = crate::alphabet::chacha(seed, "c08-batch");
            batch_verify(&mut rng, inst, &env.pc, &env.bp).is_ok()
        });
        match r {
            Err(m) => return ("PANIC".into(), format!("batch_verify (arrangement {}) panicked: {}", order, m)),
            Ok(ok) => results.push(ok),
        }
    }
    (if results[0] { "verify-ok".into() } else { "verify-err".into() }, String::new())
}

/// child mode: `bpv C08 --child <curve> <chunk> <nchunks> --tier ..`
pub fn child(o: &Opts) -> i32 {
    let curve = o.extra[1].clone();
    let chunk: usize = o.extra[2].parse().unwrap();
    let nchunks: usize = o.extra[3].parse().unwrap();
    let only: Option<usize> = o.extra.get(4).and_then(|s| s.parse().ok());
    let stdout = std::io::stdout();
    with_curve!(curve.as_str(), G => {
        let env = Env::<G>::new(64);
        let bs = bases::<G>(&env, o.seed);
        let cs = cases::<G>(&bs, o.tier);
        let mut lock = stdout.lock();
        for (i, c) in cs.iter().enumerate() {
            if i % nchunks != chunk {
                continue;
            }
            if let Some(x) = only {
                if x != i {
                    continue;
                }
            }
            writeln!(lock, "RUN\t{}", i).unwrap();
            lock.flush().unwrap();
            let (st, detail) = run_case::<G>(&env, &bs, c, o.seed);
            writeln!(lock, "END\t{}\t{}\t{}\t{}\t{}", i, st, c.class, c.desc, detail).unwrap();
        }
        writeln!(lock, "DONE\t{}", cs.len()).unwrap();
    });
    0
}

pub fn main(o: &Opts) -> i32 {
    if o.extra.first().map(|s| s.as_str()) == Some("--child") {
        return child(o);
    }
    let mut rep = Report::new("C08", o.tier.name(), o.seed, "fault_enumeration");
    let exe = std::env::current_exe().expect("current exe");
    let nchunks = 16usize;
    let mut only: Option<(String, usize)> = None;
    if let Some(path) = &o.replay {
        let v: Value = serde_json::from_str(&std::fs::read_to_string(path).unwrap()).unwrap();
        only = Some((v["case"]["curve"].as_str().unwrap().to_string(), v["case"]["index"].as_u64().unwrap() as usize));
    }
    rep.bounds = json!({"shape_grid": if o.tier == Tier::Quick { "[0,6]^2" } else { "[0,9]^2" }, "long_shapes": "|L|,|R| from {31,32,33,40,63,64,65} (equal pairs and a few unequal ones in quick, all pairs in thorough) and against {0,1,3}, on the 0-, 1- and 4-gate one-phase bases", "verifier_circuits": "0..=9 gates, one- and two-phase",
        "bytes": ["all strings of length <= 2", "every strict prefix", if o.tier == Tier::Quick { "4 substitutions per byte position" } else { "all 255 substitutions per byte position" }, "count slots <- 0..40 and huge values", "appended bytes"],
        "memory_limit": "peak live bytes during from_bytes <= 8*len + 64 KiB", "arrangements": ["verify", "batch [x]", "batch [x, valid]", "batch [valid, x]"]});
    rep.curves = CURVES.iter().map(|s| s.to_string()).collect();
    rep.rule = "every hostile proof object / byte string of the listed families is decoded and, when it decodes, verified singly and in three batch arrangements, inside single-threaded child processes; non-trivial = cases that decode (they reach verification)".into();
    let mut jobs: Vec<(&'static str, usize)> = vec![];
    for curve in CURVES {
        if let Some((c, _)) = &only {
            if c != curve {
                continue;
            }
        }
        for chunk in 0..nchunks {
            jobs.push((curve, chunk));
        }
    }
    use rayon::prelude::*;
    let outputs: Vec<(&'static str, usize, std::process::Output)> = jobs
        .par_iter()
        .map(|(curve, chunk)| {
            let mut cmd = std::process::Command::new(&exe);
            cmd.arg("C08").arg("--tier").arg(o.tier.name()).arg("--child").arg(curve).arg(chunk.to_string()).arg(nchunks.to_string());
            if let Some((_, idx)) = &only {
                cmd.arg(idx.to_string());
            }
            cmd.env("VERIF_SEED", o.seed.to_string()).env("RAYON_NUM_THREADS", "1");
            cmd.stdout(std::process::Stdio::piped()).stderr(std::process::Stdio::null());
            let out = cmd.spawn().expect("spawn child").wait_with_output().expect("child output");
            (*curve, *chunk, out)
        })
        .collect();
    let mut sample_count = 0;
    for (curve, chunk, out) in outputs {
        let text = String::from_utf8_lossy(&out.stdout);
        let mut running: Option<usize> = None;
        let mut done = false;
        for line in text.lines() {
            let f: Vec<&str> = line.split('\t').collect();
            match f[0] {
                "RUN" => running = f[1].parse().ok(),
                "DONE" => done = true,
                "END" => {
                    running = None;
                    rep.evaluations += 1;
                    let (idx, st, class, desc, detail) = (f[1], f[2], f[3], f[4], f.get(5).cloned().unwrap_or(""));
                    rep.count(&format!("{}/{}", class, st), 1);
                    if st != "decode-err" {
                        rep.nontrivial += 1;
                    }
                    if sample_count < 6 && (idx.parse::<usize>().unwrap_or(0) % 997 == 0) {
                        rep.sample(json!({"curve": curve, "case": desc, "outcome": st}));
                        sample_count += 1;
                    }
                    if st == "PANIC" || st == "MEM" {
                        let what = if detail.contains("from_bytes") { "from_bytes" } else if detail.contains("batch_verify") { "batch_verify" } else { "verify" };
                        rep.violation(Violation {
                            key: json!({"class": class, "call": what}),
                            case: json!({"curve": curve, "index": idx.parse::<usize>().unwrap_or(0), "desc": desc}),
                            expected: "returns Ok or Err within the memory bound".into(),
                            observed: detail.to_string(),
                            note: "hostile input".into(),
                        });
                    }
                }
                _ => {}
            }
        }
        if !done || !out.status.success() {
            match running {
                Some(i) => rep.violation(Violation {
                    key: json!({"class": "child-died", "call": "unknown"}),
                    case: json!({"curve": curve, "index": i}),
                    expected: "process survives".into(),
                    observed: format!("child process died ({:?}) while running case {}", out.status, i),
                    note: "abort / allocation failure attributed to this input".into(),
                }),
                None => {
                    eprintln!("machinery: C08 child {} chunk {} failed outside a case ({:?})", curve, chunk, out.status);
                    return 2;
                }
            }
        }
    }
    rep.exhaustive = true;
    rep.assumptions = vec!["inputs outside the listed families are not covered".into(), "memory is observed through a counting global allocator in the child".into()];
    rep.finish()
}
