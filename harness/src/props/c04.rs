//! C04 proof integrity: no altered version of a valid proof is accepted.
use crate::curves::{Cv, CURVES};
use crate::devspace::{apply, singles, PDev};
use crate::evidence::{guarded, Report, Violation};
use crate::program::{self, Dev, Env, Program};
use crate::proofparts::Parts;
use crate::props::common::*;
use crate::with_curve;
use ark_bulletproofs::r1cs::R1CSProof;
use serde_json::{json, Value};

pub struct Base<G: Cv> {
    pub prog: Program,
    pub bytes: Vec<u8>,
    pub comms: Vec<G>,
    pub k: usize,
}

#[derive(Clone, Debug)]
pub enum Alt {
    Bit(usize, u8),
    Alg(PDev),
    Trailing(usize),
    /// two scalar fields changed together: slot i += 1, slot j += sign * c^(+-1) with c the c-th
    /// challenge the verifier derives for the unmodified proof (forks included)
    Weighted { i: usize, j: usize, c: usize, inv: bool, neg: bool },
}
const SC_SLOTS: [crate::devspace::Slot; 5] = [crate::devspace::Slot::Sc(0), crate::devspace::Slot::Sc(1), crate::devspace::Slot::Sc(2), crate::devspace::Slot::A, crate::devspace::Slot::B];
impl Alt {
    pub fn name(&self) -> String {
        match self {
            Alt::Bit(p, b) => format!("byte {} bit {}", p, b),
            Alt::Alg(d) => d.name(),
            Alt::Trailing(n) => format!("{} trailing bytes", n),
            Alt::Weighted { i, j, c, inv, neg } => format!("{} += 1 ; {} {}= (recorded challenge #{}){}", SC_SLOTS[*i].name(), SC_SLOTS[*j].name(), if *neg { "-" } else { "+" }, c, if *inv { "^-1" } else { "" }),
        }
    }
}

pub fn base_programs(tier: Tier) -> Vec<Program> {
    let p = |s: &str| Program::parse(s).unwrap();
    let mut v = vec![
        p("C M Kg Kd"),                          // k=0, 1-phase
        p("C M Kg R[Z M Kg Kc]"),                // k=1, 2-phase
        p("C A Ka A Ka M Kg Xab Kd"),            // 3 gates, k=2, 1-phase
        p("C M Kg A Ka R[Z M Kg A Kc M Kd T]"),  // 5 gates, k=3, 2-phase
    ];
    if tier == Tier::Thorough {
        v.extend(vec![
            p("C Kb"),                       // 0 gates
            p("C Kb R[]"),                   // 2-phase separator without phase-2 gates
            p("C M Kg R[Z Kc]"),             // 2-phase, no phase-2 gate, k=0
            p("R[Z M Kg]"),                  // phase-2 gates only
            p("C C M M Kd"),                 // k=1 1-phase
            p("T C M Kg T R[T Z M Kg T]"),   // app data everywhere
            p("C A Ka R[A Ka]"),             // pending gate at the switch
            p("C M M M M Kd R[Z M M M M Kd]"), // k=3, 8 gates
            size_program(Kind::X, 2, 1),
            size_program(Kind::AOdd, 2, 2),
            size_program(Kind::APairs, 3, 0),
            size_program(Kind::M, 0, 3),
        ]);
    }
    v
}

pub fn make_bases<G: Cv>(env: &Env<G>, seed: u64, tier: Tier) -> Vec<Base<G>> {
    base_programs(tier)
        .into_iter()
        .filter_map(|prog| {
            let pr = program::try_prove::<G>(&prog, &env.pc, &env.bp, seed, "c04", Dev::None).ok()?;
            let bytes = pr.proof.clone().ok()?;
            let k = Parts::<G>::parse(&bytes)?.l.len();
            let proof = pr.obj.clone()?;
            // the alterations go through the decoder: if the decoder does not even accept the honest
            // encoding (C11's business) this base cannot be used
            if R1CSProof::<G>::from_bytes(&bytes).is_err() {
                println!("C04 note: the honest encoding of {} does not decode (C11's business); base skipped", prog.name());
                return None;
            }
            let ok = program::verify::<G>(&prog, &env.pc, &env.bp, seed, Dev::None, &pr.commitments, &proof, program::LABEL).result.is_ok();
            if !ok {
                println!("C04 note: base proof for {} is not accepted by the verifier (C01's business); base skipped", prog.name());
                return None;
            }
            Some(Base { prog, bytes, comms: pr.commitments, k })
        })
        .collect()
}

pub fn alterations<G: Cv>(b: &Base<G>) -> Vec<Alt> {
    let mut out = vec![];
    for pos in 0..b.bytes.len() {
        for bit in 0..8u8 {
            out.push(Alt::Bit(pos, bit));
        }
    }
    let parts = Parts::<G>::parse(&b.bytes).unwrap();
    for d in singles::<G>(&parts, true) {
        out.push(Alt::Alg(d));
    }
    for n in [1usize, 8, 33] {
        out.push(Alt::Trailing(n));
    }
    let nch = 8 + b.k + b.prog.closures.iter().flatten().filter(|o| **o == crate::program::Op::Z).count();
    for i in 0..5 {
        for j in 0..5 {
            if i != j {
                for c in 0..nch {
                    for inv in [false, true] {
                        for neg in [false, true] {
                            out.push(Alt::Weighted { i, j, c, inv, neg });
                        }
                    }
                }
            }
        }
    }
    out
}

#[derive(Debug, PartialEq)]
pub enum Out {
    RejectedDecode,
    RejectedVerify,
    Identical,
    Accepted,
    Panic(String),
}

pub fn run_case<G: Cv>(env: &Env<G>, b: &Base<G>, a: &Alt, seed: u64) -> Out {
    let bytes = match a {
        Alt::Bit(p, bit) => {
            let mut x = b.bytes.clone();
            x[*p] ^= 1 << bit;
            x
        }
        Alt::Alg(d) => apply::<G>(&Parts::<G>::parse(&b.bytes).unwrap(), d, &env.pc, seed).to_bytes(),
        Alt::Trailing(n) => {
            let mut x = b.bytes.clone();
            x.extend(std::iter::repeat(0x5au8).take(*n));
            x
        }
        Alt::Weighted { i, j, c, inv, neg } => {
            let parts = Parts::<G>::parse(&b.bytes).unwrap();
            let chs = crate::props::c03::recorded_challenges::<G>(env, &b.prog, &b.comms, &parts, seed);
            let Some(cv) = chs.get(*c) else { return Out::Identical };
            let mut w = if *inv { match ark_ff::Field::inverse(cv) { Some(x) => x, None => return Out::Identical } } else { *cv };
            if *neg {
                w = -w;
            }
            let mut p2 = parts.clone();
            let one = <G::ScalarField as ark_ff::One>::one();
            crate::devspace::set_sc(&mut p2, SC_SLOTS[*i], crate::devspace::get_sc(&parts, SC_SLOTS[*i]) + one);
            let cur = crate::devspace::get_sc(&p2, SC_SLOTS[*j]);
            crate::devspace::set_sc(&mut p2, SC_SLOTS[*j], cur + w);
            p2.to_bytes()
        }
    };
    let dec = match guarded(|| R1CSProof::<G>::from_bytes(&bytes)) {
        Err(m) => return Out::Panic(format!("from_bytes: {}", m)),
        Ok(Err(_)) => return Out::RejectedDecode,
        Ok(Ok(p)) => p,
    };
    // identical proof object <=> identical canonical encoding
    if dec.to_bytes().map(|e| e == b.bytes).unwrap_or(false) {
        return Out::Identical;
    }
    match guarded(|| program::verify::<G>(&b.prog, &env.pc, &env.bp, seed, Dev::None, &b.comms, &dec, program::LABEL).result.is_ok()) {
        Err(m) => Out::Panic(format!("verify: {}", m)),
        Ok(true) => Out::Accepted,
        Ok(false) => Out::RejectedVerify,
    }
}

pub fn main(o: &Opts) -> i32 {
    let mut rep = Report::new("C04", o.tier.name(), o.seed, "exploration");
    let replay: Option<Value> = o.replay.as_ref().map(|p| serde_json::from_str(&std::fs::read_to_string(p).unwrap()).unwrap());
    rep.bounds = json!({"bases": base_programs(o.tier).iter().map(|p| p.name()).collect::<Vec<_>>(),
        "alterations": ["every single-bit flip of the encoding", "every single-field algebraic deviation (identity, negation, +B, +B_blinding, +T8/T8 on the cofactor-8 curve; scalar 0, negation, +delta)", "every ordered same-type copy and every unordered same-type swap", "round edits (drop first/last, duplicate, swap rounds, swap L/R, append)", "trailing bytes", "every ordered pair of scalar fields changed together with every recorded verifier challenge (forks included) as the weight, both signs, also inverted"]});
    rep.curves = CURVES.iter().map(|s| s.to_string()).collect();
    rep.rule = "for every accepted base proof, every alteration of the alphabet: rejected by from_bytes, or rejected by verify, or decodes to the identical proof object (re-encoding equals the original bytes); non-trivial = alterations that decode to a different object (they reach the verifier)".into();
    let start = rep.start;
    let mut skipped = 0u64;
    for curve in CURVES {
        if let Some(r) = &replay {
            if r["case"]["curve"].as_str() != Some(curve) {
                continue;
            }
        }
        let results: Vec<(usize, String, Option<Out>, String)> = with_curve!(curve, G => {
            let env = Env::<G>::new(64);
            let bases = make_bases::<G>(&env, o.seed, o.tier);
            let mut tasks: Vec<(usize, Alt)> = vec![];
            for (bi, b) in bases.iter().enumerate() {
                for a in alterations::<G>(b) {
                    if let Some(r) = &replay {
                        if r["case"]["base"].as_str() != Some(&b.prog.name()) || r["case"]["alteration"].as_str() != Some(&a.name()) {
                            continue;
                        }
                    }
                    tasks.push((bi, a));
                }
            }
            let res = par_run(&tasks, start, o.budget, |_, (bi, a)| run_case::<G>(&env, &bases[*bi], a, o.seed));
            tasks.iter().zip(res).map(|((bi, a), r)| (*bi, a.name(), r, bases[*bi].prog.name())).collect()
        });
        for (i, (_bi, aname, r, bname)) in results.into_iter().enumerate() {
            let kind = if aname.starts_with("byte ") { "bitflip" } else if aname.contains("trailing") { "trailing" } else if aname.contains("recorded challenge") { "challenge-weighted" } else { "algebraic" };
            let case = json!({"curve": curve, "base": bname, "alteration": aname});
            if i % 20011 == 0 {
                rep.sample(case.clone());
            }
            match r {
                None => skipped += 1,
                Some(out) => {
                    rep.evaluations += 1;
                    match out {
                        Out::RejectedDecode => rep.count(&format!("{}/rejected-at-decode", kind), 1),
                        Out::RejectedVerify => {
                            rep.nontrivial += 1;
                            rep.count(&format!("{}/rejected-at-verify", kind), 1)
                        }
                        Out::Identical => {
                            rep.count(&format!("{}/identical-object", kind), 1);
                            if kind == "bitflip" {
                                rep.count(&format!("identical/{}/{}", curve, aname.split(' ').nth(3).unwrap_or("?")), 1);
                            }
                        }
                        Out::Accepted => {
                            rep.count("violation", 1);
                            rep.violation(Violation { key: case.clone(), case, expected: "rejected at decoding or verification (the altered input decodes to a different proof object)".into(), observed: "accepted".into(), note: "altered proof".into() });
                        }
                        Out::Panic(_) => {
                            // not an acceptance; panics on hostile inputs are C08's business
                            rep.count("precondition: decoder or verifier panicked (C08's business)", 1);
                        }
                    }
                }
            }
        }
    }
    if skipped > 0 {
        rep.caps_hit.push(format!("time budget reached: {} alterations skipped", skipped));
    }
    rep.exhaustive = skipped == 0;
    rep.assumptions = vec!["'identical proof object' is decided as: canonical re-encoding of the decoded input equals the original bytes".into()];
    rep.finish()
}
