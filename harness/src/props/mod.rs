pub mod common;
pub mod c01;
pub mod c02;
pub mod c03;
pub mod c04;
pub mod c05;
pub mod c06;
pub mod c07;
pub mod c08;
pub mod c09;
pub mod c10;
pub mod c11;
pub mod c12;
pub mod c13;
pub mod c14;
pub mod c15;
pub mod c16;
pub mod c17;
pub mod c18;

use common::Opts;
pub fn dispatch(id: &str, o: &Opts) -> i32 {
    match id {
        "C01" => c01::main(o),
        "C02" => c02::main(o),
        "C03" => c03::main(o),
        "C04" => c04::main(o),
        "C05" => c05::main(o),
        "C06" => c06::main(o),
        "C07" => c07::main(o),
        "C08" => c08::main(o),
        "C09" => c09::main(o),
        "C10" => c10::main(o),
        "C11" => c11::main(o),
        "C12" => c12::main(o),
        "C13" => c13::main(o),
        "C14" => c14::main(o),
        "C15" => c15::main(o),
        "C16" => c16::main(o),
        "C17" => c17::main(o),
        "C18" => c18::main(o),
        "RECORD-WIRE" => c18::record(),
        "COMPARE-UNPATCHED" => c18::compare_unpatched(),
        "RECORD-GENS" => c12::record_fixtures(),
        _ => {
            eprintln!("unknown property {}", id);
            2
        }
    }
}
