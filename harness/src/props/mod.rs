pub mod common;
pub mod c01;

use common::Opts;
pub fn dispatch(id: &str, o: &Opts) -> i32 {
    match id {
        "C01" => c01::main(o),
        _ => {
            eprintln!("unknown property {}", id);
            2
        }
    }
}
