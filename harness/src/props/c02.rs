//! C02 soundness against invalid witnesses: violated constraints / gates are never accepted.
use crate::alphabet::{deltas, DELTA_NAMES};
use crate::curves::{Cv, CURVES};
use crate::evidence::{guarded, Report, Violation};
use crate::program::{self, Dev, Env, Program};
use crate::props::common::*;
use crate::with_curve;
use ark_bulletproofs::r1cs::R1CSProof;
use ark_ff::PrimeField;
use serde_json::{json, Value};

#[derive(Clone, Debug, PartialEq)]
pub enum Site {
    Witness(usize),
    KConst(usize),
    /// constant shifted by a combination of the constraint's own constant terms (delta index = selector)
    KStruct(usize),
    Gate(usize, u8),
    /// several wires of one gate at once (index into GATE2_KINDS)
    Gate2(usize, usize),
    /// the constants of two explicit constraints shifted by +m1*delta and -m2*delta; mode 0: m1 = m2 = 1
    /// (rows sharing a weight), mode 1: m1 = row index of the second + 1, m2 = row index of the first + 1
    /// (weights proportional to the row number instead of powers of z)
    KPair(usize, usize, u8),
}

/// (sign of the shift on l, r, o; recompute o = l*r afterwards)
pub const GATE2_KINDS: [([i8; 3], bool, &str); 9] = [
    ([1, 0, 0], true, "l+d,o=l*r"),
    ([0, 1, 0], true, "r+d,o=l*r"),
    ([1, -1, 0], false, "l+d,r-d"),
    ([1, 1, 0], false, "l+d,r+d"),
    ([1, 0, 1], false, "l+d,o+d"),
    ([0, 1, -1], false, "r+d,o-d"),
    ([1, 1, 1], false, "l+d,r+d,o+d"),
    ([1, -1, 0], true, "l+d,r-d,o=l*r"),
    ([1, 1, 0], true, "l+d,r+d,o=l*r"),
];
impl Site {
    pub fn json(&self) -> Value {
        match self {
            Site::Witness(i) => json!({"kind": "witness", "index": i}),
            Site::KConst(k) => json!({"kind": "constant", "index": k}),
            Site::KStruct(k) => json!({"kind": "constant-structural", "index": k}),
            Site::Gate(g, f) => { let fl = ["l", "r", "o"][*f as usize]; json!({"kind": "gate", "index": g, "field": fl}) }
            Site::Gate2(g, k) => json!({"kind": "gate2", "index": g, "field": GATE2_KINDS[*k].2}),
            Site::KPair(a, b, m) => json!({"kind": "constant-pair", "index": a, "second": b, "mode": m}),
        }
    }
    pub fn from_json(v: &Value) -> Site {
        let i = v["index"].as_u64().unwrap() as usize;
        match v["kind"].as_str().unwrap() {
            "witness" => Site::Witness(i),
            "constant" => Site::KConst(i),
            "constant-structural" => Site::KStruct(i),
            "constant-pair" => Site::KPair(i, v["second"].as_u64().unwrap() as usize, v["mode"].as_u64().unwrap_or(0) as u8),
            "gate2" => Site::Gate2(i, GATE2_KINDS.iter().position(|k| Some(k.2) == v["field"].as_str()).unwrap()),
            _ => Site::Gate(i, ["l", "r", "o"].iter().position(|x| Some(*x) == v["field"].as_str()).unwrap() as u8),
        }
    }
    pub fn dev<F: PrimeField>(&self, delta: F) -> Dev<F> {
        match self {
            Site::Witness(i) => Dev::Witness { idx: *i, delta },
            Site::KConst(k) => Dev::KConst { k: *k, delta, both: true },
            Site::KStruct(_) => unreachable!(),
            Site::KPair(a, b, _) => Dev::KConstPair { k1: *a, k2: *b, delta, m1: F::one(), m2: F::one() },
            Site::Gate(g, f) => Dev::Gate { gate: *g, field: *f, delta },
            Site::Gate2(g, k) => {
                let sg = |x: i8| if x > 0 { delta } else if x < 0 { -delta } else { F::zero() };
                let (signs, rec, _) = GATE2_KINDS[*k];
                Dev::GateVec { gate: *g, d: [sg(signs[0]), sg(signs[1]), sg(signs[2])], recompute_o: rec }
            }
        }
    }
}

pub fn sites(p: &Program) -> Vec<Site> {
    let (w, k, g, _) = p.stats();
    let mut out = vec![];
    for i in 0..w {
        out.push(Site::Witness(i));
    }
    for i in 0..k {
        out.push(Site::KConst(i));
        out.push(Site::KStruct(i));
    }
    for a in 0..k {
        for b in a + 1..k {
            out.push(Site::KPair(a, b, 0));
            out.push(Site::KPair(a, b, 1));
        }
    }
    for i in 0..g {
        for f in 0..3 {
            out.push(Site::Gate(i, f));
        }
        for k in 0..GATE2_KINDS.len() {
            out.push(Site::Gate2(i, k));
        }
    }
    out
}

#[derive(Clone, Debug)]
pub struct Case {
    pub curve: &'static str,
    pub prog: Program,
    pub site: Site,
    pub delta: usize,
    /// earlier library calls played on the same thread before the subject (non-initial state)
    pub hist: Vec<crate::history::Prior>,
}

#[derive(Debug)]
pub enum Out {
    /// violated and rejected (what violated; `single` names the kind when exactly one thing is violated)
    Rejected { cons: usize, gates: usize, single: Option<&'static str> },
    /// the perturbation left everything satisfied: don't-care for C02
    Trivial,
    /// prover returned an error: no proof emitted
    NoProof(String),
    Bad { expected: String, observed: String },
}

pub fn run_case<G: Cv>(env: &Env<G>, c: &Case, seed: u64) -> Out {
    let delta = deltas::<G::ScalarField>(seed)[c.delta.min(2)];
    let dev = match &c.site {
        Site::KStruct(k) => Dev::KConstStruct { k: *k, sel: c.delta },
        Site::KPair(a, b, 1) => {
            // row numbers of the two explicit constraints in the full constraint list, taken from
            // an honest run of the same program (phase-2 rows exist only once the closures ran)
            let rows = guarded(|| program::prove::<G>(&c.prog, &env.pc, &env.bp, seed, "c02-rows", Dev::None).ctx.refcs.k_index.clone());
            match rows {
                Ok(r) if *a < r.len() && *b < r.len() => Dev::KConstPair { k1: *a, k2: *b, delta, m1: G::ScalarField::from((r[*b] + 1) as u64), m2: G::ScalarField::from((r[*a] + 1) as u64) },
                _ => return Out::NoProof("precondition: the statement cannot be constructed".into()),
            }
        }
        s => s.dev(delta),
    };
    if !c.hist.is_empty() {
        let b = match crate::history::base::<G>(env, seed) {
            Ok(b) => b,
            Err(e) => return Out::NoProof(format!("precondition: history base: {}", e)),
        };
        for ev in &c.hist {
            if let Err(m) = crate::history::play::<G>(env, &b, ev, seed) {
                return Out::NoProof(format!("precondition: history event panicked: {} {}", ev.name(), m));
            }
        }
    }
    let pr = match guarded(|| program::prove::<G>(&c.prog, &env.pc, &env.bp, seed, "c02", dev.clone())) {
        Ok(p) => p,
        // a prover that panics emits no proof: nothing can be accepted (completeness and panics on
        // honest runs are C01's business)
        Err(m) => return Out::NoProof(format!("prove panicked: {}", m)),
    };
    let bytes = match &pr.proof {
        Ok(b) => b.clone(),
        Err(e) => return Out::NoProof(e.clone()),
    };
    if !pr.ctx.problems.is_empty() {
        // the prover did not build the constraint system the reference model holds (handles or
        // gate counts differ): C16's business; the reference cannot judge this witness
        return Out::NoProof(format!("precondition: prover and reference model diverge: {}", pr.ctx.problems[0]));
    }
    let rc = &pr.ctx.refcs;
    let vc = rc.violated_constraints(&rc.actual);
    let vg = rc.violated_gates(&rc.actual);
    let _ = &bytes;
    let proof = pr.obj.clone().expect("proof object");
    // the verifier sees the statement: constants shifted on both sides stay shifted there
    let vdev = match &dev {
        Dev::KConst { .. } | Dev::KConstStruct { .. } | Dev::KConstPair { .. } => dev.clone(),
        _ => Dev::None,
    };
    let vr = match guarded(|| program::verify::<G>(&c.prog, &env.pc, &env.bp, seed, vdev, &pr.commitments, &proof, program::LABEL)) {
        Ok(v) => v,
        // a panic is not an acceptance (hostile-input panics are C08's business)
        Err(m) => return Out::NoProof(format!("verify panicked: {}", m)),
    };
    // the oracle judges the statement the prover built; if the verifier built a different one
    // (role synchrony is C06/C16's business) its verdict says nothing about this witness
    if vr.ctx.refcs.cons != rc.cons {
        return Out::NoProof("precondition: the two roles built different statements".into());
    }
    if vc.is_empty() && vg.is_empty() {
        return Out::Trivial;
    }
    match vr.result {
        Err(_) => {
            let single = if vc.len() + vg.len() == 1 {
                if vg.len() == 1 {
                    Some("gate")
                } else if rc.k_index.contains(&vc[0]) {
                    Some("explicit constraint")
                } else {
                    // implicit rows of multiply: `operand - wire`, left then right
                    let last = rc.cons[vc[0]].last().map(|t| t.0);
                    match last {
                        Some(ark_bulletproofs::r1cs::Variable::MultiplierLeft(_)) => Some("implicit left row of multiply"),
                        _ => Some("implicit right row of multiply"),
                    }
                }
            } else {
                None
            };
            Out::Rejected { cons: vc.len(), gates: vg.len(), single }
        }
        Ok(()) => Out::Bad {
            expected: format!("verify returns Err (violated constraints {:?}, violated gates {:?})", vc, vg),
            observed: "verify returned Ok".into(),
        },
    }
}

pub fn cases(tier: Tier) -> (Vec<Case>, Value) {
    let (progs, sn, desc) = match tier {
        Tier::Quick => (program_space2(2, 1, 0), 3, "P(2,1) without second closures"),
        Tier::Thorough => (program_space(3, 1), 4, "P(3,1)"),
    };
    let mut all: Vec<Program> = progs;
    all.extend(size_family(sn).into_iter().map(|x| x.3));
    all.extend(extra_programs());
    let mut out = vec![];
    let mut idx = 0usize;
    for p in &all {
        for s in sites(p) {
            let nd = if matches!(s, Site::KStruct(_)) { 5 } else { 3 };
            for d in 0..nd {
                if matches!(s, Site::KStruct(_)) {
                    match tier {
                        Tier::Quick => out.push(Case { curve: CURVES[idx % 3], prog: p.clone(), site: s.clone(), delta: d, hist: vec![] }),
                        Tier::Thorough => out.push(Case { curve: CURVES[idx % 3], prog: p.clone(), site: s.clone(), delta: d, hist: vec![] }),
                    }
                    idx += 1;
                    continue;
                }
                // multi-wire gate patterns: one delta (rho)
                if matches!(s, Site::Gate2(..)) && d != 2 {
                    continue;
                }
                if tier == Tier::Quick && d == 1 {
                    continue;
                }
                match tier {
                    Tier::Quick => {
                        out.push(Case { curve: CURVES[idx % 3], prog: p.clone(), site: s.clone(), delta: d, hist: vec![] });
                    }
                    Tier::Thorough => {
                        if p.p1.len() >= 3 && !p.closures.is_empty() {
                            out.push(Case { curve: CURVES[idx % 3], prog: p.clone(), site: s.clone(), delta: d, hist: vec![] });
                        } else {
                            for c in CURVES {
                                out.push(Case { curve: c, prog: p.clone(), site: s.clone(), delta: d, hist: vec![] });
                            }
                        }
                    }
                }
                idx += 1;
            }
        }
    }
    // non-initial states: every depth-1 history of earlier calls in front of every site of three subjects
    let mut n_hist = 0;
    for sp in ["C M Ka", "C M Ka R[M Ka M]", "C Kd", "C C Xab R[Xca Kc]"] {
        let sp = Program::parse(sp).expect("subject");
        for s in sites(&sp) {
            if matches!(s, Site::Gate2(..) | Site::KPair(..)) {
                continue;
            }
            for h in crate::history::histories(if tier == Tier::Quick { 1 } else { 2 }) {
                if tier == Tier::Thorough && h.len() == 2 && !matches!(s, Site::Witness(..) | Site::Gate(..)) {
                    continue;
                }
                out.push(Case { curve: CURVES[idx % 3], prog: sp.clone(), site: s.clone(), delta: 0, hist: h });
                idx += 1;
                n_hist += 1;
            }
        }
    }
    // many rows: index widths in the constraint weights (rows whose weights collide once a
    // counter wraps at 2^8), 300 explicit constraints over two commitments
    let long = Program::parse(&format!("C C {}", "Ka Kb ".repeat(150))).expect("long program");
    let mut n_long = 0;
    for c in CURVES.iter() {
        for r in [0usize, 1, 2, 3, 20, 43] {
            for off in [255usize, 256] {
                for mode in [0u8, 1] {
                    out.push(Case { curve: c, prog: long.clone(), site: Site::KPair(r, r + off, mode), delta: 0, hist: vec![] });
                    n_long += 1;
                }
            }
        }
        for r in [0usize, 1, 255, 256, 257, 299] {
            out.push(Case { curve: c, prog: long.clone(), site: Site::KConst(r), delta: 0, hist: vec![] });
            n_long += 1;
        }
    }
    let b = json!({"long_program_cases": n_long, "long_program": "C C (Ka Kb) x 150: single constants at rows 0, 1, 255, 256, 257, 299 and pairs (r, r+255), (r, r+256) in both pair modes", "history_cases": n_hist, "histories": "every history of earlier same-thread calls (history.rs alphabet) of depth 1 in front of every single-site case of four subjects", "program_space": desc, "size_family": format!("S({})", sn), "programs": all.len(),
        "sites": "every witness input (C value, A value, M inputs; both phases) shifted on the prover only; every explicit constraint constant shifted on both roles; every pair of explicit constraints with constants shifted by +delta / -delta, and by +(j+1)delta / -(i+1)delta for rows number i < j, on both roles (two violated rows whose residuals cancel if their weights are equal resp. proportional to the row number); every gate x {l,r,o} overwritten through hook H1; every gate x 7 multi-wire patterns (opposite / equal shifts on two wires, with and without a recomputed output)",
        "deltas": DELTA_NAMES});
    (out, b)
}

fn case_json(c: &Case) -> Value {
    json!({"curve": c.curve, "program": c.prog.name(), "history": crate::history::hist_name(&c.hist), "site": c.site.json(), "delta": if matches!(c.site, Site::KStruct(_)) { ["-(sum of constants)", "+(sum of constants)", "-(first constant)", "+(last constant)", "-(half of the value)"][c.delta] } else { DELTA_NAMES[c.delta] }})
}

pub fn main(o: &Opts) -> i32 {
    if let Some(path) = &o.replay {
        return replay(path, o);
    }
    let mut rep = Report::new("C02", o.tier.name(), o.seed, "exploration");
    let (cs, bounds) = cases(o.tier);
    rep.bounds = bounds;
    rep.curves = CURVES.iter().map(|s| s.to_string()).collect();
    rep.rule = "for every program and every violation site x delta: real prove with the perturbed assignment, real verify; the reference model decides whether >=1 constraint or gate is violated under the prover's actual assignment; non-trivial = violated (a perturbation that leaves everything satisfied is a don't-care)".into();
    let start = rep.start;
    let mut skipped = 0u64;
    for curve in CURVES {
        let sub: Vec<&Case> = cs.iter().filter(|c| c.curve == curve).collect();
        let res = with_curve!(curve, G => {
            let env = Env::<G>::new(64);
            par_run(&sub, start, o.budget, |_, c| run_case::<G>(&env, c, o.seed))
        });
        for (c, r) in sub.into_iter().zip(res) {
            let kind = match c.site {
                Site::Witness(_) => "witness",
                Site::KConst(_) => "constant",
                Site::KStruct(_) => "constant-structural",
                Site::KPair(..) => "constant-pair",
                Site::Gate(..) => "gate",
                Site::Gate2(..) => "gate2",
            };
            match r {
                None => skipped += 1,
                Some(Out::Rejected { cons, gates, single }) => {
                    if let Some(k) = single {
                        rep.count(&format!("rejected with exactly one violated item: {}", k), 1);
                    }
                    rep.evaluations += 1;
                    rep.nontrivial += 1;
                    rep.count(&format!("rejected/{}", kind), 1);
                    if cons > 0 && gates == 0 {
                        rep.count("violated:constraints-only", 1);
                    } else if gates > 0 && cons == 0 {
                        rep.count("violated:gates-only", 1);
                    } else {
                        rep.count("violated:both", 1);
                    }
                }
                Some(Out::Trivial) => {
                    rep.evaluations += 1;
                    rep.count(&format!("dont-care/{}", kind), 1);
                }
                Some(Out::NoProof(_)) => {
                    rep.evaluations += 1;
                    rep.count("no-proof", 1);
                }
                Some(Out::Bad { expected, observed }) => {
                    rep.evaluations += 1;
                    rep.count("violation", 1);
                    rep.violation(Violation { key: case_json(c), case: case_json(c), expected, observed, note: "bad witness".into() });
                }
            }
        }
    }
    if skipped > 0 {
        rep.caps_hit.push(format!("time budget reached: {} cases skipped", skipped));
    }
    rep.exhaustive = skipped == 0;
    for c in pick(&cs) {
        rep.sample(case_json(&c));
    }
    rep.assumptions = vec![
        "decides the proof emitted by the real proving code for a bad assignment, not arbitrary adversarial provers".into(),
        "a challenge-weighted error cancelling by coincidence (probability ~1/|F|) is treated as impossible".into(),
    ];
    rep.finish()
}

pub fn replay(path: &str, o: &Opts) -> i32 {
    let v: Value = serde_json::from_str(&std::fs::read_to_string(path).expect("read replay")).expect("json");
    let case = &v["case"];
    let curve: &'static str = CURVES.iter().find(|c| **c == case["curve"].as_str().unwrap()).expect("curve");
    let c = Case {
        curve,
        prog: Program::parse(case["program"].as_str().unwrap()).expect("program"),
        site: Site::from_json(&case["site"]),
        hist: crate::history::parse_hist(case["history"].as_str().unwrap_or("")).expect("history"),
        delta: DELTA_NAMES.iter().position(|d| Some(*d) == case["delta"].as_str()).or_else(|| ["-(sum of constants)", "+(sum of constants)", "-(first constant)", "+(last constant)", "-(half of the value)"].iter().position(|d| Some(*d) == case["delta"].as_str())).unwrap(),
    };
    let seed = v["seed"].as_u64().unwrap_or(o.seed);
    let run = || with_curve!(curve, G => { let env = Env::<G>::new(64); format!("{:?}", run_case::<G>(&env, &c, seed)) });
    let (a, b) = (run(), run());
    if a != b {
        eprintln!("machinery: replay diverged: {} vs {}", a, b);
        return 2;
    }
    println!("replay: {}", a);
    if a.starts_with("Bad") {
        println!("VIOLATION property=C02 replay={}", path);
        1
    } else {
        0
    }
}
