//! Shared enumeration helpers: tiers, program space P(d1,d2), size family S(N), parallel runner.
use crate::program::{Op, Program, Shape, P1_LETTERS, P2_LETTERS};
use rayon::prelude::*;
use std::time::{Duration, Instant};

#[derive(Clone, Copy, Debug, PartialEq, Eq)]
pub enum Tier {
    Quick,
    Thorough,
}
impl Tier {
    pub fn name(&self) -> &'static str {
        match self {
            Tier::Quick => "quick",
            Tier::Thorough => "thorough",
        }
    }
}

#[derive(Clone, Debug)]
pub struct Opts {
    pub tier: Tier,
    pub seed: u64,
    pub replay: Option<String>,
    /// wall-clock budget; when exceeded the remaining cases are skipped and a cap is reported
    pub budget: Duration,
    /// unparsed arguments (child-process modes)
    pub extra: Vec<String>,
}

fn seqs(letters: &[Op], max_len: usize) -> Vec<Vec<Op>> {
    let mut out = vec![vec![]];
    let mut frontier = vec![vec![]];
    for _ in 0..max_len {
        let mut next = vec![];
        for s in &frontier {
            for l in letters {
                let mut t: Vec<Op> = s.clone();
                t.push(*l);
                next.push(t);
            }
        }
        out.extend(next.iter().cloned());
        frontier = next;
    }
    out
}

/// P(d1,d2): all phase-1 sequences of length <= d1, each with no closure or one closure whose body
/// is any sequence of length <= d2 (the empty body included); for phase-1 length <= 2 additionally
/// a second closure with a body of length <= 1.
pub fn program_space(d1: usize, d2: usize) -> Vec<Program> {
    program_space2(d1, d2, 2)
}

/// as `program_space`, second closures only for phase-1 length <= `second_max`
pub fn program_space2(d1: usize, d2: usize, second_max: usize) -> Vec<Program> {
    let p1s = seqs(&P1_LETTERS, d1);
    let bodies = seqs(&P2_LETTERS, d2);
    let short = seqs(&P2_LETTERS, 1);
    let mut out = vec![];
    for p1 in &p1s {
        out.push(Program::new(p1.clone(), vec![]));
        for b in &bodies {
            out.push(Program::new(p1.clone(), vec![b.clone()]));
        }
        if p1.len() <= second_max {
            for b in &short {
                for b2 in &short {
                    out.push(Program::new(p1.clone(), vec![b.clone(), b2.clone()]));
                }
            }
        }
    }
    out
}

#[derive(Clone, Copy, Debug, PartialEq, Eq)]
pub enum Kind {
    APairs,
    AOdd,
    M,
    X,
}
pub const KINDS: [Kind; 4] = [Kind::APairs, Kind::AOdd, Kind::M, Kind::X];

fn phase_ops(kind: Kind, n: usize, phase2: bool) -> Vec<Op> {
    let mut ops = vec![];
    if phase2 && n > 0 {
        ops.push(Op::Z);
    }
    match kind {
        Kind::M => {
            for _ in 0..n {
                ops.push(Op::M);
                ops.push(Op::K(Shape::G));
            }
        }
        Kind::X => {
            for _ in 0..n {
                ops.push(Op::X(Shape::V, Shape::A));
                ops.push(Op::K(Shape::O));
            }
        }
        Kind::APairs => {
            for _ in 0..n {
                ops.extend_from_slice(&[Op::A, Op::K(Shape::A), Op::A, Op::K(Shape::A)]);
            }
        }
        Kind::AOdd => {
            if n > 0 {
                for _ in 0..n - 1 {
                    ops.extend_from_slice(&[Op::A, Op::K(Shape::A), Op::A, Op::K(Shape::A)]);
                }
                // the last gate of the phase is left half-open, then constrained to be closed
                // with right = out = 0
                ops.extend_from_slice(&[Op::A, Op::K(Shape::A), Op::K(Shape::R), Op::K(Shape::O)]);
            }
        }
    }
    ops
}

/// One member of the size family S(N).
pub fn size_program(kind: Kind, n1: usize, n2: usize) -> Program {
    let mut p1 = vec![Op::C];
    p1.extend(phase_ops(kind, n1, false));
    let mut closures = vec![];
    if n2 > 0 {
        let mut body = phase_ops(kind, n2, true);
        if kind == Kind::AOdd && n1 > 0 {
            // re-assert in phase 2 that the gate left open in phase 1 stayed closed: it is not the
            // most recent gate any more, so do it first
            let mut b = vec![Op::K(Shape::R), Op::K(Shape::O)];
            b.extend(body);
            body = b;
        }
        closures.push(body);
    }
    Program::new(p1, closures)
}

pub fn size_family(n: usize) -> Vec<(Kind, usize, usize, Program)> {
    let mut out = vec![];
    for kind in KINDS {
        for n1 in 0..=n {
            for n2 in 0..=n {
                out.push((kind, n1, n2, size_program(kind, n1, n2)));
            }
        }
    }
    out
}

/// Hand-picked degenerate programs appended to every program-space based check: empty operands of
/// multiply, many commitments, many constraints on one gate, closures that only append data,
/// three closures.
pub fn extra_programs() -> Vec<Program> {
    [
        "Xnn Kd",
        "Xnn",
        "Xnn Ko",
        "C Xnc Ko",
        "C Xcn Ko R[Xnn Xnc Ko]",
        "C Xnc Kd Xcn Ko",
        "C Xnn R[Xnn Kd]",
        "C C C C C Kd Kb",
        "C M Kg Kd Kc Ka Kb Ke Kn Kg Kd Kc Kr Ko",
        "Kn Kn C Kn Kb Kn",
        "C R[T] R[T Z] R[Z T M Kc]",
        "A A A A A Kd R[A A A Kd]",
        "C M Kg R[Z Z Z M Kc] R[Z] R[]",
        "C Cd Kd",
        "C C0 Ks Kd",
        "C0 C M Ks R[Z Ks Kc]",
        "C0 Kb",
        "C Cd Cd Kb M Kd R[Z M Kc]",
        // exactly one `x + x` constraint each: a second one would be broken on the honest side by
        // the very change (equal neighbours merged) that the halved constant is meant to expose
        "Kw Kd",
        "C M Kw Kd",
        "C C M R[Z A Kw Kc]",
        "C Xww Ko",
    ]
    .iter()
    .map(|s| Program::parse(s).expect("extra program"))
    .collect()
}

/// Value-run templates: (program text, number of explicit value slots)
pub fn value_templates() -> Vec<(Program, usize)> {
    let t = |s: &str, k: usize| (Program::parse(s).expect("template"), k);
    vec![
        t("C Kb Kc", 1),
        t("M Kg Kd", 2),
        t("A A Kd Kc", 2),
        t("C C Xbv Ko Kd", 2),
        t("C R[Z M Kg Kc]", 3),
        t("C A M Xca Kd R[Z A Kc]", 3),
    ]
}

/// all index vectors in {0..base}^k
pub fn cartesian(base: usize, k: usize) -> Vec<Vec<usize>> {
    let mut out = vec![vec![]];
    for _ in 0..k {
        let mut next = vec![];
        for v in &out {
            for i in 0..base {
                let mut w = v.clone();
                w.push(i);
                next.push(w);
            }
        }
        out = next;
    }
    out
}

/// Parallel map with a wall-clock budget. Returns one `Option<R>` per case (None = skipped
/// because the budget ran out) in input order.
pub fn par_run<C: Sync, R: Send>(cases: &[C], start: Instant, budget: Duration, f: impl Fn(usize, &C) -> R + Sync) -> Vec<Option<R>> {
    let panics = std::sync::Mutex::new(Vec::<String>::new());
    let out: Vec<Option<R>> = cases
        .par_iter()
        .enumerate()
        .map(|(i, c)| {
            if start.elapsed() > budget {
                None
            } else {
                // calls into the subject are wrapped individually by the checks; an unwind that
                // reaches this point comes from the harness itself
                match crate::evidence::guarded(|| f(i, c)) {
                    Ok(r) => Some(r),
                    Err(m) => {
                        panics.lock().unwrap().push(format!("case #{}: {}", i, m));
                        None
                    }
                }
            }
        })
        .collect();
    let p = panics.into_inner().unwrap();
    if !p.is_empty() {
        eprintln!("machinery: the harness itself panicked in {} case(s) (not a verdict); first: {}", p.len(), p[0]);
        std::process::exit(2);
    }
    out
}

pub fn pick<T: Clone>(v: &[T]) -> Vec<T> {
    // first, middle, last
    if v.is_empty() {
        return vec![];
    }
    let mut out = vec![v[0].clone()];
    if v.len() > 2 {
        out.push(v[v.len() / 2].clone());
    }
    if v.len() > 1 {
        out.push(v[v.len() - 1].clone());
    }
    out
}
