//! C01 completeness: every satisfied constraint system yields an accepted proof.
use crate::curves::{Cv, CURVES};
use crate::evidence::{guarded, Report, Violation};
use crate::history::{self, Prior};
use crate::program::{self, Dev, Env, Program};
use crate::props::common::*;
use crate::with_curve;
use ark_bulletproofs::r1cs::R1CSProof;
use ark_bulletproofs::BulletproofGens;
use serde_json::json;

#[derive(Clone, Debug)]
pub struct Case {
    pub curve: &'static str,
    pub prog: Program,
    /// None = shared capacity-64 generators
    pub caps: Option<(usize, usize)>,
    pub class: &'static str,
    /// earlier library calls played on the same thread before the subject (non-initial state)
    pub hist: Vec<Prior>,
    /// earlier proofs made and verified on the same pair of transcripts (borrowed form,
    /// `Prover::new(pc, &mut t)`); the subject continues on them
    pub chain: Vec<Program>,
    /// party capacity of the prover's / verifier's generators (the protocol uses party 0 only)
    pub parties: (usize, usize),
    /// generators built small and grown with `increase_capacity` instead of `new(cap, ..)`
    pub grown: bool,
    /// Pedersen bases used by both roles: 0 = `PedersenGens::default()`, 1 = (3B + B~, 5B~ + B),
    /// 2 = the two default bases exchanged (all prime-order points)
    pub bases: u8,
}

#[derive(Debug)]
pub enum Out {
    Accept { gates: usize, two_phase: bool },
    Bad { expected: String, observed: String },
    /// the history could not be played (a panic in an earlier call is C08's business, not C01's)
    Precond(String),
}

pub fn custom_bases<G: Cv>(kind: u8) -> ark_bulletproofs::PedersenGens<G> {
    use ark_ec::{AffineRepr, CurveGroup};
    let d = ark_bulletproofs::PedersenGens::<G>::default();
    match kind {
        1 => ark_bulletproofs::PedersenGens { B: (d.B.into_group() * G::ScalarField::from(3u64) + d.B_blinding).into_affine(), B_blinding: (d.B_blinding.into_group() * G::ScalarField::from(5u64) + d.B).into_affine() },
        2 => ark_bulletproofs::PedersenGens { B: d.B_blinding, B_blinding: d.B },
        _ => d,
    }
}

pub fn run_case<G: Cv>(env0: &Env<G>, c: &Case, seed: u64) -> Out {
    let env_custom;
    let env: &Env<G> = if c.bases == 0 {
        env0
    } else {
        env_custom = Env::<G> { pc: custom_bases::<G>(c.bases), bp: env0.bp.clone() };
        &env_custom
    };
    let (bp_p, bp_v);
    let (bpp, bpv): (&BulletproofGens<G>, &BulletproofGens<G>) = match c.caps {
        None => (&env.bp, &env.bp),
        Some((p, v)) => {
            let mk = |cap: usize, parties: usize| {
                if c.grown {
                    let mut g = BulletproofGens::<G>::new(cap.min(1), parties);
                    g.increase_capacity((cap + 1) / 2);
                    g.increase_capacity(cap);
                    g
                } else {
                    BulletproofGens::<G>::new(cap, parties)
                }
            };
            bp_p = mk(p, c.parties.0);
            bp_v = mk(v, c.parties.1);
            (&bp_p, &bp_v)
        }
    };
    if !c.hist.is_empty() {
        let b = match history::base::<G>(env, seed) {
            Ok(b) => b,
            Err(e) => return Out::Precond(format!("history base: {}", e)),
        };
        for ev in &c.hist {
            if let Err(m) = history::play::<G>(env, &b, ev, seed) {
                return Out::Precond(format!("{} panicked: {}", ev.name(), m));
            }
        }
    }
    if !c.chain.is_empty() {
        return run_chain::<G>(env, c, seed);
    }
    let pr = match guarded(|| program::prove::<G>(&c.prog, &env.pc, bpp, seed, "c01", Dev::None)) {
        Ok(p) => p,
        Err(m) => return Out::Bad { expected: "prove returns Ok".into(), observed: format!("prove panicked: {}", m) },
    };
    if !pr.ctx.refcs.satisfied(&pr.ctx.refcs.honest) {
        eprintln!("machinery: reference model says the honest assignment of {} is not satisfying", c.prog.name());
        std::process::exit(2);
    }
    let bytes = match &pr.proof {
        Ok(b) => b.clone(),
        Err(e) => return Out::Bad { expected: "prove returns Ok".into(), observed: format!("prove returned Err({})", e) },
    };
    let _ = &bytes;
    let proof = pr.obj.clone().expect("proof object");
    let vr = match guarded(|| program::verify::<G>(&c.prog, &env.pc, bpv, seed, Dev::None, &pr.commitments, &proof, program::LABEL)) {
        Ok(v) => v,
        Err(m) => return Out::Bad { expected: "verify returns Ok".into(), observed: format!("verify panicked: {}", m) },
    };
    match vr.result {
        Ok(()) => Out::Accept { gates: pr.ctx.refcs.gates(), two_phase: !c.prog.closures.is_empty() },
        Err(e) => Out::Bad { expected: "verify returns Ok".into(), observed: format!("verify returned Err({})", e) },
    }
}

/// Every link (the chain's programs, then the subject) is proved on the prover-side transcript and
/// verified on the verifier-side transcript, both borrowed; each link must be accepted.
fn run_chain<G: Cv>(env: &Env<G>, c: &Case, seed: u64) -> Out {
    use crate::program::{build_prover, build_verifier, take_ctx};
    use merlin::Transcript;
    let mut tp = Transcript::new(program::LABEL);
    let mut tv = Transcript::new(program::LABEL);
    let links: Vec<&Program> = c.chain.iter().chain(std::iter::once(&c.prog)).collect();
    let mut last = (0usize, false);
    for (li, prog) in links.iter().enumerate() {
        let r = guarded(|| {
            let (prover, ctx, comms) = build_prover::<G, &mut Transcript>(prog, &env.pc, &mut tp, seed + li as u64, Dev::None);
            let mut rng = crate::alphabet::chacha(seed + li as u64, "c01-chain");
            let r = prover.prove(&mut rng, &env.bp);
            let ctx = take_ctx(ctx);
            (r.map_err(|e| program::err_name(&e)), comms, ctx)
        });
        let (proof, comms, pctx) = match r {
            Ok((Ok(p), c, x)) => (p, c, x),
            Ok((Err(e), _, _)) => return Out::Bad { expected: format!("link {} ({}): prove returns Ok", li, prog.name()), observed: format!("prove returned Err({})", e) },
            Err(m) => return Out::Bad { expected: format!("link {} ({}): prove returns Ok", li, prog.name()), observed: format!("prove panicked: {}", m) },
        };
        let r = guarded(|| {
            let (verifier, ctx) = build_verifier::<G, &mut Transcript>(prog, &env.pc, &mut tv, seed + li as u64, Dev::None, &comms);
            let r = verifier.verify(&proof, &env.pc, &env.bp);
            let _ = take_ctx(ctx);
            r.map_err(|e| program::err_name(&e))
        });
        match r {
            Ok(Ok(())) => {}
            Ok(Err(e)) => return Out::Bad { expected: format!("link {} ({}): verify returns Ok", li, prog.name()), observed: format!("verify returned Err({})", e) },
            Err(m) => return Out::Bad { expected: format!("link {} ({}): verify returns Ok", li, prog.name()), observed: format!("verify panicked: {}", m) },
        }
        last = (pctx.refcs.gates(), !prog.closures.is_empty());
    }
    // both transcripts must still agree after the last link
    let mut a = [0u8; 32];
    let mut b = [0u8; 32];
    tp.challenge_bytes(b"c01-chain-follow-up", &mut a);
    tv.challenge_bytes(b"c01-chain-follow-up", &mut b);
    if a != b {
        // role synchrony of the handed-back transcripts is C06's business; completeness held
    }
    Out::Accept { gates: last.0, two_phase: last.1 }
}

pub fn cases(tier: Tier) -> (Vec<Case>, serde_json::Value) {
    let mut out = vec![];
    let (d1, d2, sn) = match tier {
        Tier::Quick => (3, 1, 5),
        Tier::Thorough => (4, 1, 9),
    };
    let mut progs = if tier == Tier::Quick { program_space2(d1, d2, 1) } else { program_space(d1, d2) };
    if tier == Tier::Thorough {
        let mut extra = program_space2(3, 2, 0);
        extra.retain(|p| p.closures.iter().any(|c| c.len() == 2));
        progs.extend(extra);
    }
    progs.extend(extra_programs());
    let n_shape = progs.len();
    for (i, p) in progs.into_iter().enumerate() {
        match tier {
            Tier::Quick => out.push(Case { curve: CURVES[i % 3], prog: p, caps: None, class: "shape", hist: vec![], chain: vec![], parties: (1, 1), grown: false, bases: 0 }),
            Tier::Thorough => {
                // depth-4 layer: one curve per program (round-robin); everything shallower: all curves
                if p.p1.len() == 4 || (p.p1.len() == 3 && p.closures.iter().any(|c| c.len() == 2)) {
                    out.push(Case { curve: CURVES[i % 3], prog: p, caps: None, class: "shape", hist: vec![], chain: vec![], parties: (1, 1), grown: false, bases: 0 });
                } else {
                    for c in CURVES {
                        out.push(Case { curve: c, prog: p.clone(), caps: None, class: "shape", hist: vec![], chain: vec![], parties: (1, 1), grown: false, bases: 0 });
                    }
                }
            }
        }
    }
    // size family with capacity pairs
    let mut n_size = 0;
    for (j, (_k, n1, n2, p)) in size_family(sn).into_iter().enumerate() {
        let nh = (n1 + n2).max(1).next_power_of_two();
        let caps = [nh, nh + 1, 2 * nh, 64];
        for (ci, c) in CURVES.iter().enumerate() {
            if tier == Tier::Quick && (j + ci) % 3 != 0 {
                continue;
            }
            for (a, cp) in caps.iter().enumerate() {
                for (b, cv) in caps.iter().enumerate() {
                    if tier == Tier::Quick && a != b && !(a == 0 && b == 3) && !(a == 3 && b == 0) {
                        continue;
                    }
                    out.push(Case { curve: c, prog: p.clone(), caps: Some((*cp, *cv)), class: "size", hist: vec![], chain: vec![], parties: (1, 1), grown: false, bases: 0 });
                    n_size += 1;
                }
            }
            // generators with several parties and generators grown by increase_capacity
            for (parties, grown) in [((2, 1), false), ((1, 3), false), ((1, 1), true), ((3, 2), true)] {
                out.push(Case { curve: c, prog: p.clone(), caps: Some((nh, 2 * nh)), class: "size", hist: vec![], chain: vec![], parties, grown, bases: 0 });
                n_size += 1;
            }
        }
    }
    // large circuits: padded sizes 128, 256, 512 (index widths, round counts 7..9)
    let big: Vec<(Kind, usize, usize)> = match tier {
        Tier::Quick => vec![(Kind::M, 100, 30)],
        Tier::Thorough => vec![(Kind::M, 100, 30), (Kind::M, 70, 0), (Kind::APairs, 0, 129), (Kind::M, 255, 2), (Kind::AOdd, 129, 128), (Kind::X, 33, 40)],
    };
    for (bi, (k, n1, n2)) in big.into_iter().enumerate() {
        let nh = (n1 + n2).max(1).next_power_of_two();
        let p = size_program(k, n1, n2);
        for (ci, c) in CURVES.iter().enumerate() {
            if tier == Tier::Quick && ci != bi % 3 {
                continue;
            }
            out.push(Case { curve: c, prog: p.clone(), caps: Some((nh, nh)), class: "size", hist: vec![], chain: vec![], parties: (1, 1), grown: false, bases: 0 });
            out.push(Case { curve: c, prog: p.clone(), caps: Some((nh + 1, 2 * nh)), class: "size", hist: vec![], chain: vec![], parties: (1, 1), grown: false, bases: 0 });
            n_size += 2;
        }
    }
    // value runs
    let mut n_val = 0;
    for (ti, (p, k)) in value_templates().into_iter().enumerate() {
        for (vi, vals) in cartesian(8, k).into_iter().enumerate() {
            for (ci, c) in CURVES.iter().enumerate() {
                if tier == Tier::Quick && (ti + vi + ci) % 3 != 0 {
                    continue;
                }
                let mut q = p.clone();
                q.values = vals.clone();
                out.push(Case { curve: c, prog: q, caps: None, class: "value", hist: vec![], chain: vec![], parties: (1, 1), grown: false, bases: 0 });
                n_val += 1;
            }
        }
    }
    // non-initial states: every history of earlier calls (depth 1; depth 2 in the thorough tier)
    // in front of a few subjects of different sizes and phase structure
    let subjects: Vec<Program> = ["C M Ka", "C M Ka R[M Ka M]", "C Kd", "A A A R[A Kb]", "C C Xab R[Xca Kc]"].iter().map(|s| Program::parse(s).expect("subject")).collect();
    let mut n_hist = 0;
    let hdepth = if tier == Tier::Quick { 1 } else { 2 };
    for d in 1..=hdepth {
        for (hi, h) in history::histories(d).into_iter().enumerate() {
            for (si, sp) in subjects.iter().enumerate() {
                for (ci, c) in CURVES.iter().enumerate() {
                    // depth 2: one curve per (history, subject), round-robin
                    if d == 2 && (hi + si + ci) % 3 != 0 {
                        continue;
                    }
                    out.push(Case { curve: c, prog: sp.clone(), caps: None, class: "history", hist: h.clone(), chain: vec![], parties: (1, 1), grown: false, bases: 0 });
                    n_hist += 1;
                }
            }
        }
    }
    // non-default Pedersen bases (the same on both roles)
    let mut n_bases = 0;
    {
        let mut bprogs: Vec<Program> = subjects.clone();
        for (k, n1, n2) in [(Kind::M, 2, 0), (Kind::M, 3, 0), (Kind::M, 1, 2), (Kind::AOdd, 5, 0), (Kind::X, 2, 3), (Kind::APairs, 0, 4)] {
            bprogs.push(size_program(k, n1, n2));
        }
        for bp in &bprogs {
            for kind in [1u8, 2] {
                for c in CURVES.iter() {
                    out.push(Case { curve: c, prog: bp.clone(), caps: None, class: "bases", hist: vec![], chain: vec![], parties: (1, 1), grown: false, bases: kind });
                    n_bases += 1;
                }
            }
        }
    }
    // chained proofs on borrowed transcripts: every ordered pair (quick) / triple (thorough) of subjects
    let mut n_chain = 0;
    for (i, a) in subjects.iter().enumerate() {
        for (j, b) in subjects.iter().enumerate() {
            for c in CURVES.iter() {
                let _ = (i, j);
                out.push(Case { curve: c, prog: b.clone(), caps: None, class: "chained", hist: vec![], chain: vec![a.clone()], parties: (1, 1), grown: false, bases: 0 });
                n_chain += 1;
                if tier == Tier::Thorough {
                    for z in subjects.iter() {
                        out.push(Case { curve: c, prog: z.clone(), caps: None, class: "chained", hist: vec![], chain: vec![a.clone(), b.clone()], parties: (1, 1), grown: false, bases: 0 });
                        n_chain += 1;
                    }
                }
            }
        }
    }
    let bounds = json!({
        "program_space": format!("P({},{}){}", d1, d2, if tier == Tier::Thorough { " + P(3,2) bodies of length 2" } else { "" }),
        "letters_phase1": program::P1_LETTERS.iter().map(|o| o.name()).collect::<Vec<_>>(),
        "letters_phase2": program::P2_LETTERS.iter().map(|o| o.name()).collect::<Vec<_>>(),
        "shape_programs": n_shape,
        "size_family": format!("S({}) x kinds {{APairs,AOdd,M,X}} x capacity pairs from {{n^, n^+1, 2n^, 64}} + party capacities (2,1),(1,3) + generators grown by increase_capacity", sn),
        "size_cases": n_size,
        "value_cases": n_val,
        "custom_base_cases": n_bases,
        "custom_bases": "both roles use PedersenGens { B: 3B + B~, B_blinding: 5B~ + B } resp. the two default bases exchanged, on the history subjects and six sized circuits (0..5 gates, both phases)",
        "chained_cases": n_chain,
        "chained": "earlier proofs made and verified on the same borrowed transcripts (Prover::new(pc, &mut t) / Verifier::new(&mut t)), the subject continues on them: ordered pairs (quick) and triples (thorough) of the history subjects",
        "history_cases": n_hist,
        "history_alphabet": history::alphabet().iter().map(|p| p.name()).collect::<Vec<_>>(),
        "history_depth": hdepth,
        "history_subjects": subjects.iter().map(|p| p.name()).collect::<Vec<_>>(),
        "value_alphabet": crate::alphabet::VAL_NAMES,
    });
    (out, bounds)
}

pub fn main(o: &Opts) -> i32 {
    let mut rep = Report::new("C01", o.tier.name(), o.seed, "exploration");
    if let Some(path) = &o.replay {
        return replay(path, o);
    }
    let (cs, bounds) = cases(o.tier);
    rep.bounds = bounds;
    rep.curves = CURVES.iter().map(|s| s.to_string()).collect();
    rep.rule = "every call sequence of the program space (every prefix is itself a program), every member of the size family with each capacity pair, every value-template x VAL^k; every history of earlier calls on the same thread (error paths included) in front of five subjects; each case = real prove then real verify of a satisfied system; non-trivial = distinct (curve, program, capacities) with at least one constraint or gate".into();
    let start = rep.start;
    let mut all = vec![];
    for curve in CURVES {
        let sub: Vec<&Case> = cs.iter().filter(|c| c.curve == curve).collect();
        let res = with_curve!(curve, G => {
            let env = Env::<G>::new(64);
            par_run(&sub, start, o.budget, |_, c| run_case::<G>(&env, c, o.seed))
        });
        for (c, r) in sub.into_iter().zip(res) {
            all.push((c.clone(), r));
        }
    }
    let mut skipped = 0u64;
    for (c, r) in &all {
        match r {
            None => skipped += 1,
            Some(Out::Accept { gates, two_phase }) => {
                rep.evaluations += 1;
                let nt = *gates > 0 || c.prog.total_ops() > 0;
                if nt {
                    rep.nontrivial += 1;
                }
                rep.count(&format!("accept/{}/{}", c.class, if *two_phase { "2phase" } else { "1phase" }), 1);
                rep.count(&format!("gates={}", gates.max(&0)), 1);
            }
            Some(Out::Precond(m)) => {
                rep.evaluations += 1;
                rep.count(&format!("precondition: history not playable ({})", m.split(':').next().unwrap_or("")), 1);
            }
            Some(Out::Bad { expected, observed }) => {
                rep.evaluations += 1;
                rep.count("violation", 1);
                rep.violation(Violation {
                    key: json!({"curve": c.curve, "program": c.prog.name(), "caps": c.caps, "history": history::hist_name(&c.hist), "chain": c.chain.iter().map(|p| p.name()).collect::<Vec<_>>(), "parties": [c.parties.0, c.parties.1], "grown": c.grown, "bases": c.bases}),
                    case: json!({"curve": c.curve, "program": c.prog.name(), "caps": c.caps.map(|x| vec![x.0, x.1]), "history": history::hist_name(&c.hist), "chain": c.chain.iter().map(|p| p.name()).collect::<Vec<_>>(), "parties": [c.parties.0, c.parties.1], "grown": c.grown, "bases": c.bases}),
                    expected: expected.clone(),
                    observed: observed.clone(),
                    note: "satisfied constraint system".into(),
                });
            }
        }
    }
    if skipped > 0 {
        rep.caps_hit.push(format!("time budget {:?} reached: {} cases skipped", o.budget, skipped));
    }
    rep.exhaustive = skipped == 0;
    for c in pick(&cs) {
        rep.sample(json!({"curve": c.curve, "program": c.prog.name(), "caps": c.caps.map(|x| vec![x.0, x.1]), "class": c.class}));
    }
    rep.assumptions = vec![
        "values restricted to the VAL alphabet; depth bounded as stated".into(),
        "arkworks arithmetic and Merlin/STROBE are trusted".into(),
    ];
    rep.finish()
}

pub fn replay(path: &str, o: &Opts) -> i32 {
    let v: serde_json::Value = serde_json::from_str(&std::fs::read_to_string(path).expect("read replay")).expect("json");
    let case = &v["case"];
    let curve: &'static str = CURVES.iter().find(|c| **c == case["curve"].as_str().unwrap()).expect("curve");
    let prog = Program::parse(case["program"].as_str().unwrap()).expect("program");
    let caps = case["caps"].as_array().map(|a| (a[0].as_u64().unwrap() as usize, a[1].as_u64().unwrap() as usize));
    let hist = history::parse_hist(case["history"].as_str().unwrap_or("")).expect("history");
    let chain: Vec<Program> = case["chain"].as_array().map(|a| a.iter().map(|x| Program::parse(x.as_str().unwrap()).expect("chain program")).collect()).unwrap_or_default();
    let parties = case["parties"].as_array().map(|a| (a[0].as_u64().unwrap() as usize, a[1].as_u64().unwrap() as usize)).unwrap_or((1, 1));
    let grown = case["grown"].as_bool().unwrap_or(false);
    let bases = case["bases"].as_u64().unwrap_or(0) as u8;
    let c = Case { curve, prog, caps, class: "replay", hist, chain, parties, grown, bases };
    let seed = v["seed"].as_u64().unwrap_or(o.seed);
    let run = || with_curve!(curve, G => { let env = Env::<G>::new(64); format!("{:?}", run_case::<G>(&env, &c, seed)) });
    let a = run();
    let b = run();
    if a != b {
        eprintln!("machinery: replay diverged: {} vs {}", a, b);
        return 2;
    }
    println!("replay: {}", a);
    if a.starts_with("Accept") {
        0
    } else {
        println!("VIOLATION property=C01 replay={}", path);
        1
    }
}
