//! C12 generators are deterministic, history-independent, distinct and of prime order.
//! stateright explores the capacity-history machine; every state is materialised on a real
//! `BulletproofGens` by replaying its history.
use crate::curves::{pt_bytes, Cv, CURVES};
use crate::evidence::{guarded, verif_root, Report, Violation};
use crate::props::common::*;
use crate::with_curve;
use ark_bulletproofs::{BulletproofGens, PedersenGens};
use ark_ec::{AffineRepr, CurveGroup};
use ark_ff::PrimeField;
use ark_serialize::{CanonicalDeserialize, CanonicalSerialize};
use rayon::prelude::*;
use serde_json::{json, Value};
use sha3::{Digest, Sha3_256};
use stateright::{Checker, HasDiscoveries, Model, Property};
use std::collections::BTreeMap;

pub const CAPS: [usize; 9] = [0, 1, 2, 3, 4, 7, 8, 16, 33];
pub const RT: u8 = 9; // serialize -> deserialize
pub const CL: u8 = 10; // g = g.clone()
/// CF + i: g.clone_from(&new(CF_CAPS[i], parties)) - the object takes over another object's contents
pub const CF: u8 = 11;
pub const CF_CAPS: [usize; 4] = [0, 2, 8, 33];
pub const LAST_ACTION: u8 = CF + 3;
pub const PREFIXES: [usize; 8] = [1, 2, 8, 33, 64, 512, 1024, 4096];

pub struct GensMachine {
    pub depth: usize,
}
impl Model for GensMachine {
    type State = Vec<u8>;
    type Action = u8;
    fn init_states(&self) -> Vec<Vec<u8>> {
        // the first action is the initial `new(c, parties)`
        (0..CAPS.len() as u8).map(|c| vec![c]).collect()
    }
    fn actions(&self, s: &Vec<u8>, a: &mut Vec<u8>) {
        if s.len() < self.depth {
            a.extend(0..=LAST_ACTION);
        }
    }
    fn next_state(&self, s: &Vec<u8>, a: u8) -> Option<Vec<u8>> {
        let mut n = s.clone();
        n.push(a);
        Some(n)
    }
    fn properties(&self) -> Vec<Property<Self>> {
        vec![
            // model-level invariant: the abstract capacity is the maximum requested so far
            Property::always("abstract capacity is monotone", |_, s: &Vec<u8>| {
                // between two clone_from actions the capacity never decreases
                let mut cap = 0usize;
                for a in s {
                    let before = cap;
                    if *a < RT {
                        cap = cap.max(CAPS[*a as usize]);
                    } else if *a >= CF {
                        cap = CF_CAPS[(*a - CF) as usize];
                        continue;
                    }
                    if cap < before {
                        return false;
                    }
                }
                cap == abstract_cap(s)
            }),
            Property::sometimes("a round trip followed by an increase is reached", |_, s: &Vec<u8>| s.windows(2).any(|w| w[0] == RT && w[1] < RT)),
            Property::sometimes("impossible (keeps the search going)", |_, _| false),
        ]
    }
}

pub fn abstract_cap(h: &[u8]) -> usize {
    let mut cap = 0usize;
    for a in h {
        if *a < RT {
            cap = cap.max(CAPS[*a as usize]);
        } else if *a >= CF {
            cap = CF_CAPS[(*a - CF) as usize];
        }
    }
    cap
}
pub fn hist_name(h: &[u8]) -> String {
    h.iter()
        .enumerate()
        .map(|(i, a)| {
            if *a == RT {
                "roundtrip".to_string()
            } else if *a == CL {
                "clone".to_string()
            } else if *a >= CF {
                format!("clone_from(new({}))", CF_CAPS[(*a - CF) as usize])
            } else if i == 0 {
                format!("new({})", CAPS[*a as usize])
            } else {
                format!("inc({})", CAPS[*a as usize])
            }
        })
        .collect::<Vec<_>>()
        .join(" ")
}
pub fn parse_hist(s: &str) -> Vec<u8> {
    s.split_whitespace()
        .map(|t| {
            if t == "roundtrip" {
                RT
            } else if t == "clone" {
                CL
            } else if let Some(x) = t.strip_prefix("clone_from(new(") {
                let n: usize = x.trim_end_matches(')').parse().unwrap();
                CF + CF_CAPS.iter().position(|c| *c == n).unwrap() as u8
            } else {
                let n: usize = t.trim_start_matches("new(").trim_start_matches("inc(").trim_end_matches(')').parse().unwrap();
                CAPS.iter().position(|c| *c == n).unwrap() as u8
            }
        })
        .collect()
}

fn materialise<G: Cv>(h: &[u8], parties: usize) -> Result<BulletproofGens<G>, String> {
    let mut g = BulletproofGens::<G>::new(CAPS[h[0] as usize], parties);
    for a in &h[1..] {
        if *a == RT {
            let mut bytes = vec![];
            g.serialize_compressed(&mut bytes).map_err(|e| format!("serialize: {:?}", e))?;
            g = BulletproofGens::<G>::deserialize_compressed(&bytes[..]).map_err(|e| format!("deserialize: {:?}", e))?;
        } else if *a == CL {
            #[allow(clippy::redundant_clone)]
            let c = g.clone();
            g = c;
        } else if *a >= CF {
            let src = BulletproofGens::<G>::new(CF_CAPS[(*a - CF) as usize], parties);
            g.clone_from(&src);
        } else {
            g.increase_capacity(CAPS[*a as usize]);
        }
    }
    Ok(g)
}

/// all generators of a party through the public single-party view
fn party_vec<G: Cv>(g: &BulletproofGens<G>, j: usize, cap: usize, h: bool) -> Vec<G> {
    // G(n, m) lists parties 0..m; the j-th party's slice is the tail of G(cap, j+1)
    let it: Vec<G> = if h { g.H(cap, j + 1).cloned().collect() } else { g.G(cap, j + 1).cloned().collect() };
    it[j * cap..].to_vec()
}

pub struct Direct<G: Cv> {
    /// [party][i] for G and H taken from a directly constructed object
    pub g: Vec<Vec<G>>,
    pub h: Vec<Vec<G>>,
    /// its compressed serialization
    pub bytes: Vec<u8>,
}
fn direct<G: Cv>(cap: usize, parties: usize) -> Direct<G> {
    let d = BulletproofGens::<G>::new(cap, parties);
    let mut bytes = vec![];
    d.serialize_compressed(&mut bytes).expect("serialize");
    if cap == 0 {
        return Direct { g: vec![vec![]; parties], h: vec![vec![]; parties], bytes };
    }
    Direct { bytes, g: (0..parties).map(|j| party_vec(&d, j, cap, false)).collect(), h: (0..parties).map(|j| party_vec(&d, j, cap, true)).collect() }
}

/// Check one state. Returns (views checked, problems as (key, expected, observed)).
pub fn check_state<G: Cv>(h: &[u8], parties: usize, directs: &BTreeMap<(usize, usize), Direct<G>>) -> (u64, Vec<(Value, String, String)>) {
    let mut bad = vec![];
    let mut views = 0u64;
    let cap = abstract_cap(h);
    let base = json!({"curve": G::NAME, "parties": parties, "history": hist_name(h)});
    let g = match guarded(|| materialise::<G>(h, parties)) {
        Ok(Ok(g)) => g,
        Ok(Err(e)) => {
            bad.push((base, "history executes".into(), e));
            return (0, bad);
        }
        Err(m) => {
            bad.push((base, "history executes".into(), format!("panicked: {}", m)));
            return (0, bad);
        }
    };
    if g.gens_capacity != cap || g.party_capacity != parties {
        bad.push((base.clone(), format!("gens_capacity {} party_capacity {}", cap, parties), format!("gens_capacity {} party_capacity {}", g.gens_capacity, g.party_capacity)));
        return (0, bad);
    }
    let d = &directs[&(cap, parties)];
    // (1b) the serialized form is a function of (curve, capacity, parties) alone: it equals that
    // of the directly constructed object (C18 compares the bytes with the reference revision's)
    views += 1;
    match guarded(|| {
        let mut bytes = vec![];
        g.serialize_compressed(&mut bytes).map(|_| bytes)
    }) {
        Ok(Ok(bytes)) => {
            let want = &d.bytes;
            if &bytes != want {
                bad.push((json!({"curve": G::NAME, "parties": parties, "history": hist_name(h), "view": "serialized form"}), format!("the {} bytes a directly constructed new({}, {}) serializes to", want.len(), cap, parties), format!("{} bytes, first difference at offset {}", bytes.len(), bytes.iter().zip(want.iter()).position(|(a, b)| a != b).unwrap_or(bytes.len().min(want.len())))));
            }
        }
        Ok(Err(e)) => bad.push((base.clone(), "serializes".into(), format!("{:?}", e))),
        Err(m) => bad.push((base.clone(), "serializes".into(), format!("panicked: {}", m))),
    }
    // (2) every (n, m) view lists exactly the first n generators of the first m parties
    for n in 0..=cap {
        for m in 0..=parties {
            for hh in [false, true] {
                views += 1;
                let got: Result<Vec<G>, String> = guarded(|| if hh { g.H(n, m).cloned().collect() } else { g.G(n, m).cloned().collect() });
                let src = if hh { &d.h } else { &d.g };
                let want: Vec<G> = (0..m).flat_map(|j| src[j][..n].iter().cloned()).collect();
                let view = if n == 0 && m >= 2 { "n=0,m>=2".to_string() } else { format!("n={},m={}", n, m) };
                let key = json!({"view": view});
                let case = json!({"curve": G::NAME, "parties": parties, "history": hist_name(h), "view": format!("{}(n={}, m={})", if hh { "H" } else { "G" }, n, m)});
                match got {
                    Err(msg) => bad.push((if n == 0 && m >= 2 { json!({"key": key, "case": case}) } else { case }, format!("{} generators", want.len()), format!("panicked: {}", msg))),
                    Ok(v) => {
                        if v != want {
                            // (1) history independence and (2) the view law are both decided by this
                            // comparison with the directly constructed object
                            let obs = if v.len() != want.len() { format!("{} generators", v.len()) } else { "same count, different points".to_string() };
                            bad.push((if n == 0 && m >= 2 { json!({"key": key, "case": case}) } else { case }, format!("{} generators equal to direct construction new({}, {})", want.len(), cap, parties), obs));
                        }
                    }
                }
            }
        }
    }
    (views, bad)
}

/// Serialized form of a `BulletproofGens` in the reference revision (arkworks canonical,
/// compressed): gens_capacity, party_capacity as u64 LE, then G_vec and H_vec, each a u64 LE party
/// count followed per party by a u64 LE length and the compressed points.
pub fn layout_model<G: Cv>(cap: usize, parties: usize, g: &[Vec<G>], h: &[Vec<G>]) -> Vec<u8> {
    let mut out = vec![];
    out.extend_from_slice(&(cap as u64).to_le_bytes());
    out.extend_from_slice(&(parties as u64).to_le_bytes());
    for side in [g, h] {
        out.extend_from_slice(&(side.len() as u64).to_le_bytes());
        for party in side {
            out.extend_from_slice(&(party.len() as u64).to_le_bytes());
            for p in party {
                out.extend_from_slice(&pt_bytes(p));
            }
        }
    }
    out
}

fn split<G: Cv>(g: &BulletproofGens<G>, cap: usize, parties: usize, h: bool) -> Vec<Vec<G>> {
    let all: Vec<G> = if h { g.H(cap, parties).cloned().collect() } else { g.G(cap, parties).cloned().collect() };
    if cap == 0 {
        return vec![vec![]; parties];
    }
    all.chunks(cap).map(|c| c.to_vec()).collect()
}

/// Serialized generator objects recorded from the pinned revision (`fixtures/gens_blobs_unpatched.json`):
/// the current tree must produce the same bytes (`exact`, C18's business), and must decode the recorded bytes into an
/// object with the recorded capacities and the same views as a direct construction.
pub fn blob_checks<G: Cv>(blobs: &Value, exact: bool) -> (u64, Vec<(Value, String, String)>) {
    let mut bad = vec![];
    let mut n = 0u64;
    let f = match blobs[G::NAME].as_object() {
        Some(f) => f,
        None => {
            bad.push((json!({"curve": G::NAME, "fixture": "gens blobs"}), "present".into(), "missing".into()));
            return (0, bad);
        }
    };
    for (name, hexv) in f {
        n += 1;
        let key = json!({"curve": G::NAME, "fixture": format!("serialized generators {}", name)});
        let want = hex::decode(hexv.as_str().unwrap_or("")).unwrap_or_default();
        let (shape, inc) = match name.split_once("+inc") {
            Some((a, b)) => (a, b.parse::<usize>().ok()),
            None => (name.as_str(), None),
        };
        let (c, p) = shape.split_once('x').map(|(a, b)| (a.parse::<usize>().unwrap(), b.parse::<usize>().unwrap())).unwrap();
        let cap = inc.map(|i| i.max(c)).unwrap_or(c);
        let r = guarded(|| {
            let mut g = BulletproofGens::<G>::new(c, p);
            if let Some(i) = inc {
                g.increase_capacity(i);
            }
            let mut bytes = vec![];
            g.serialize_compressed(&mut bytes).map_err(|e| format!("{:?}", e))?;
            if exact && (bytes != want || bytes != layout_model(cap, p, &split::<G>(&g, cap, p, false), &split::<G>(&g, cap, p, true))) {
                return Err(format!("{} bytes, first difference at offset {}", bytes.len(), bytes.iter().zip(want.iter()).position(|(a, b)| a != b).unwrap_or(bytes.len().min(want.len()))));
            }
            let back = BulletproofGens::<G>::deserialize_compressed(&want[..]).map_err(|e| format!("recorded bytes do not decode: {:?}", e))?;
            if back.gens_capacity != cap || back.party_capacity != p {
                return Err(format!("recorded bytes decode to gens_capacity {} party_capacity {}", back.gens_capacity, back.party_capacity));
            }
            let gg: Vec<G> = back.G(cap, p).cloned().collect();
            let hh: Vec<G> = back.H(cap, p).cloned().collect();
            let wg: Vec<G> = g.G(cap, p).cloned().collect();
            let wh: Vec<G> = g.H(cap, p).cloned().collect();
            if gg != wg || hh != wh || gg.len() != cap * p {
                return Err("recorded bytes decode to different generator views".to_string());
            }
            Ok(())
        });
        match r {
            Ok(Ok(())) => {}
            Ok(Err(e)) => bad.push((key, format!("the {} bytes recorded from the reference revision, decoding to capacity {} x {} parties", want.len(), cap, p), e)),
            Err(m) => bad.push((key, "no panic".into(), format!("panicked: {}", m))),
        }
    }
    (n, bad)
}
pub fn load_blobs() -> Value {
    let p = verif_root().join("fixtures").join("gens_blobs_unpatched.json");
    match std::fs::read_to_string(&p).ok().and_then(|s| serde_json::from_str(&s).ok()) {
        Some(v) => v,
        None => {
            eprintln!("machinery: fixtures/gens_blobs_unpatched.json missing or invalid");
            std::process::exit(2);
        }
    }
}

fn digest<G: Cv>(pts: &[G]) -> String {
    let mut h = Sha3_256::new();
    for p in pts {
        h.update(pt_bytes(p));
    }
    hex::encode(h.finalize())
}

/// content checks on a directly constructed object: distinctness, prime order, fixture digests
pub fn content_checks<G: Cv>(cap: usize, parties: usize, fixtures: Option<&Value>) -> (u64, Vec<(Value, String, String)>) {
    let mut bad = vec![];
    let d = direct::<G>(cap, parties);
    let pc = PedersenGens::<G>::default();
    let mut all: Vec<(String, G)> = vec![("B".into(), pc.B), ("B_blinding".into(), pc.B_blinding)];
    for j in 0..parties {
        for (i, p) in d.g[j].iter().enumerate() {
            all.push((format!("G[{}][{}]", j, i), *p));
        }
        for (i, p) in d.h[j].iter().enumerate() {
            all.push((format!("H[{}][{}]", j, i), *p));
        }
    }
    let n = all.len() as u64;
    let r = <G::ScalarField as PrimeField>::MODULUS;
    let probs: Vec<(Value, String, String)> = all
        .par_iter()
        .filter_map(|(name, p)| {
            let key = json!({"curve": G::NAME, "generator": name, "cap": cap, "parties": parties});
            if p.is_zero() {
                return Some((key, "non-identity".into(), "identity".into()));
            }
            if !p.mul_bigint(r).into_affine().is_zero() {
                return Some((key, "[r]P = O (prime-order subgroup)".into(), "[r]P != O".into()));
            }
            None
        })
        .collect();
    bad.extend(probs);
    let mut enc: Vec<(Vec<u8>, &String)> = all.iter().map(|(n, p)| (pt_bytes(p), n)).collect();
    enc.sort();
    for w in enc.windows(2) {
        if w[0].0 == w[1].0 {
            bad.push((json!({"curve": G::NAME, "generators": [w[0].1, w[1].1]}), "pairwise distinct".into(), "equal".into()));
        }
    }
    if let Some(fx) = fixtures {
        let f = &fx[G::NAME];
        let chk = |name: &str, got: String, bad: &mut Vec<(Value, String, String)>| {
            let want = f[name].as_str().unwrap_or("<missing in fixtures>");
            if want != got {
                bad.push((json!({"curve": G::NAME, "fixture": name}), format!("digest {}", want), format!("digest {}", got)));
            }
        };
        chk("B", hex::encode(pt_bytes(&pc.B)), &mut bad);
        chk("B_blinding", hex::encode(pt_bytes(&pc.B_blinding)), &mut bad);
        for j in 0..parties {
            for pre in PREFIXES {
                if pre <= cap {
                    chk(&format!("G/{}/{}", j, pre), digest(&d.g[j][..pre]), &mut bad);
                    chk(&format!("H/{}/{}", j, pre), digest(&d.h[j][..pre]), &mut bad);
                }
            }
        }
    }
    (n, bad)
}

/// Many parties with a tiny capacity: pairwise distinctness across all parties (a party index
/// that wraps makes two parties coincide), order, digests of selected parties and of the whole set.
pub fn many_parties_check<G: Cv>(parties: usize, fixtures: Option<&Value>) -> (u64, Vec<(Value, String, String)>) {
    let mut bad = vec![];
    let cap = 2usize;
    let g = BulletproofGens::<G>::new(cap, parties);
    let gs: Vec<G> = g.G(cap, parties).cloned().collect();
    let hs: Vec<G> = g.H(cap, parties).cloned().collect();
    if gs.len() != cap * parties || hs.len() != cap * parties {
        bad.push((json!({"curve": G::NAME, "check": "many parties view length", "parties": parties}), format!("{}", cap * parties), format!("{} / {}", gs.len(), hs.len())));
        return (0, bad);
    }
    let mut enc: Vec<(Vec<u8>, String)> = vec![];
    for j in 0..parties {
        for i in 0..cap {
            enc.push((pt_bytes(&gs[j * cap + i]), format!("G[{}][{}]", j, i)));
            enc.push((pt_bytes(&hs[j * cap + i]), format!("H[{}][{}]", j, i)));
        }
    }
    enc.sort();
    for w in enc.windows(2) {
        if w[0].0 == w[1].0 {
            bad.push((json!({"curve": G::NAME, "check": "pairwise distinct across many parties", "generators": [w[0].1, w[1].1]}), "distinct".into(), "equal".into()));
            if bad.len() > 4 {
                break;
            }
        }
    }
    let r = <G::ScalarField as PrimeField>::MODULUS;
    let wrong_order = gs.par_iter().chain(hs.par_iter()).filter(|p| p.is_zero() || !p.mul_bigint(r).into_affine().is_zero()).count();
    if wrong_order > 0 {
        bad.push((json!({"curve": G::NAME, "check": "order of generators of many parties"}), "all of order r".into(), format!("{} are not", wrong_order)));
    }
    if let Some(fx) = fixtures {
        let f = &fx[G::NAME];
        let mut chk = |name: String, got: String| {
            let want = f[name.as_str()].as_str().unwrap_or("<missing in fixtures>").to_string();
            if want != got {
                bad.push((json!({"curve": G::NAME, "fixture": name}), format!("digest {}", want), format!("digest {}", got)));
            }
        };
        for j in MANY_SELECTED {
            if j < parties {
                chk(format!("many/G/{}", j), digest(&gs[j * cap..(j + 1) * cap]));
                chk(format!("many/H/{}", j), digest(&hs[j * cap..(j + 1) * cap]));
            }
        }
        chk(format!("many/all/G/{}", parties), digest(&gs));
        chk(format!("many/all/H/{}", parties), digest(&hs));
    }
    ((2 * cap * parties) as u64, bad)
}
pub const MANY_SELECTED: [usize; 8] = [4, 255, 256, 257, 299, 65535, 65536, 65537];
pub const MANY_QUICK: usize = 300;
pub const MANY_THOROUGH: usize = 65540;

pub fn record_fixtures() -> i32 {
    let mut out = serde_json::Map::new();
    for curve in CURVES {
        let m: serde_json::Map<String, Value> = with_curve!(curve, G => {
            let mut m = serde_json::Map::new();
            let pc = PedersenGens::<G>::default();
            m.insert("B".into(), json!(hex::encode(pt_bytes(&pc.B))));
            m.insert("B_blinding".into(), json!(hex::encode(pt_bytes(&pc.B_blinding))));
            let d = direct::<G>(4096, 4);
            for j in 0..4 {
                for pre in PREFIXES {
                    m.insert(format!("G/{}/{}", j, pre), json!(digest(&d.g[j][..pre])));
                    m.insert(format!("H/{}/{}", j, pre), json!(digest(&d.h[j][..pre])));
                }
            }
            for parties in [MANY_QUICK, MANY_THOROUGH] {
                let g = BulletproofGens::<G>::new(2, parties);
                let gs: Vec<G> = g.G(2, parties).cloned().collect();
                let hs: Vec<G> = g.H(2, parties).cloned().collect();
                for j in MANY_SELECTED {
                    if j < parties {
                        m.insert(format!("many/G/{}", j), json!(digest(&gs[j * 2..(j + 1) * 2])));
                        m.insert(format!("many/H/{}", j), json!(digest(&hs[j * 2..(j + 1) * 2])));
                    }
                }
                m.insert(format!("many/all/G/{}", parties), json!(digest(&gs)));
                m.insert(format!("many/all/H/{}", parties), json!(digest(&hs)));
            }
            m
        });
        out.insert(curve.to_string(), Value::Object(m));
    }
    out.insert("_note".into(), json!("SHA3-256 over the concatenated compressed encodings of the first N generators of party j (key kind/j/N); recorded from the reference revision by `bpv record-fixtures gens`; the checks never write this file"));
    let dir = verif_root().join("fixtures");
    std::fs::create_dir_all(&dir).unwrap();
    std::fs::write(dir.join("generators.json"), serde_json::to_string_pretty(&Value::Object(out)).unwrap()).unwrap();
    println!("wrote fixtures/generators.json");
    0
}

pub fn load_fixtures() -> Value {
    let p = verif_root().join("fixtures").join("generators.json");
    match std::fs::read_to_string(&p).ok().and_then(|s| serde_json::from_str(&s).ok()) {
        Some(v) => v,
        None => {
            eprintln!("machinery: fixtures/generators.json missing or invalid");
            std::process::exit(2);
        }
    }
}

pub fn main(o: &Opts) -> i32 {
    let mut rep = Report::new("C12", o.tier.name(), o.seed, "model_checking");
    let fixtures = load_fixtures();
    let blobs = load_blobs();
    let (depth, big) = match o.tier {
        Tier::Quick => (3, 512),
        Tier::Thorough => (4, 4096),
    };
    if let Some(path) = &o.replay {
        let v: Value = serde_json::from_str(&std::fs::read_to_string(path).unwrap()).unwrap();
        println!("replay of C12 cases re-runs the quick check; case was: {}", v["case"]);
    }
    rep.bounds = json!({"actions": ["new(c)/inc(c) for c in {0,1,2,3,4,7,8,16,33}", "serialize->deserialize", "clone", "clone_from(new(c)) for c in {0,2,8,33}"], "serialized_form": "every state's bytes equal the reference layout rebuilt from a direct construction; 8 objects per curve recorded from the pinned revision compared byte for byte and decoded", "history_depth": depth, "parties": [1, 2, 3], "views": "(n,m) in [0,cap] x [0,parties], G and H", "large_instance": {"cap": big, "parties": 4}, "many_parties_instance": {"cap": 2, "parties": if o.tier == Tier::Quick { MANY_QUICK } else { MANY_THOROUGH }}});
    rep.curves = CURVES.iter().map(|s| s.to_string()).collect();
    // stateright: enumerate the history machine once (it is curve independent)
    let m = GensMachine { depth };
    let (rec, states) = stateright::StateRecorder::new_with_accessor();
    let c = m.checker().threads(8).visitor(rec).finish_when(HasDiscoveries::AnyFailures).spawn_bfs().join();
    for (name, path) in c.discoveries() {
        if name.starts_with("abstract capacity") {
            eprintln!("machinery: abstract model invariant broken at {:?}", path.last_state());
            return 2;
        }
    }
    let hists: Vec<Vec<u8>> = states();
    let model_states = c.unique_state_count() as u64;
    let generated = c.state_count() as u64;
    let start = rep.start;
    let mut replayed = 0u64;
    let mut skipped = 0u64;
    for curve in CURVES {
        let (nrep, nskip, views, bad, content_n): (u64, u64, u64, Vec<(Value, String, String)>, u64) = with_curve!(curve, G => {
            let mut directs = BTreeMap::new();
            for cap in CAPS {
                for parties in 1..=3 {
                    directs.insert((cap, parties), direct::<G>(cap, parties));
                }
            }
            let tasks: Vec<(&Vec<u8>, usize)> = hists.iter().flat_map(|h| (1..=3).map(move |p| (h, p))).collect();
            let res = par_run(&tasks, start, o.budget, |_, (h, p)| check_state::<G>(h, *p, &directs));
            let mut bad = vec![];
            let (mut nrep, mut nskip, mut views) = (0u64, 0u64, 0u64);
            for r in res {
                match r {
                    None => nskip += 1,
                    Some((v, b)) => {
                        nrep += 1;
                        views += v;
                        bad.extend(b);
                    }
                }
            }
            // content checks once per (cap, parties) plus the large instance
            let mut content_n = 0;
            for cap in CAPS {
                for parties in 1..=3 {
                    let (n, b) = content_checks::<G>(cap, parties, Some(&fixtures));
                    content_n += n;
                    bad.extend(b);
                }
            }
            let (n, b) = content_checks::<G>(big, 4, Some(&fixtures));
            content_n += n;
            bad.extend(b);
            let (n, b) = blob_checks::<G>(&blobs, false);
            content_n += n;
            bad.extend(b);
            let (n, b) = many_parties_check::<G>(if o.tier == Tier::Quick { MANY_QUICK } else { MANY_THOROUGH }, Some(&fixtures));
            content_n += n;
            bad.extend(b);
            if o.tier == Tier::Thorough {
                // one party, capacity beyond 2^16: generator indices must not wrap either
                let (n, b) = content_checks::<G>(66_000, 1, Some(&fixtures));
                content_n += n;
                bad.extend(b);
            }
            (nrep, nskip, views, bad, content_n)
        });
        replayed += nrep;
        skipped += nskip;
        rep.count("views checked", views);
        rep.count("generators checked for order/distinctness/digest", content_n);
        rep.evaluations += views + content_n;
        for (key, e, ob) in bad {
            rep.count("violation", 1);
            let (key, case) = if key.get("key").is_some() { (key["key"].clone(), key["case"].clone()) } else { (key.clone(), key) };
            rep.violation(Violation { key, case, expected: e, observed: ob, note: format!("curve {}", curve) });
        }
    }
    if skipped > 0 {
        rep.caps_hit.push(format!("time budget reached: {} states not replayed", skipped));
    }
    rep.states = Some(model_states);
    rep.transitions = Some(generated);
    rep.traces_validated = Some(replayed);
    rep.nontrivial = replayed;
    rep.exhaustive = skipped == 0;
    rep.rule = "stateright BFS over capacity histories (first action = new(c, parties), then increase_capacity(c) / serialize->deserialize / clone / clone_from(new(c))); every history is replayed on a real BulletproofGens for parties 1..3 and each curve, and compared view by view with a directly constructed object; content checks ([r]P = O, non-identity, pairwise distinct, SHA3 digests pinned from the reference revision) once per (capacity, parties) and on a large instance".into();
    rep.explanation = "model states are histories; traces_validated_against_impl counts (history, parties, curve) replays on the implementation".into();
    for h in pick(&hists) {
        rep.sample(json!({"history": hist_name(&h)}));
    }
    rep.assumptions = vec!["views with n > capacity or m > party_capacity are outside the statement (they panic by indexing)".into(), "SHA3 and the point encoding are trusted for the digest comparison".into()];
    rep.finish()
}
