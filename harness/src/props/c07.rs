//! C07 batch verification accepts exactly when every instance verifies individually.
use crate::alphabet::rho;
use crate::curves::{Cv, CURVES};
use crate::evidence::{guarded, Report, Violation};
use crate::program::{self, build_verifier, Dev, Env, Program};
use crate::proofparts::Parts;
use crate::props::common::*;
use crate::with_curve;
use ark_bulletproofs::r1cs::{batch_verify, R1CSProof};
use ark_ff::One;
use merlin::Transcript;
use serde_json::{json, Value};

pub struct Inst<G: Cv> {
    pub name: String,
    pub prog: Program,
    pub comms: Vec<G>,
    pub proof: R1CSProof<G>,
    pub ok: bool,
}

pub fn pool<G: Cv>(env: &Env<G>, seed: u64) -> Vec<Inst<G>> {
    let mut out = vec![];
    let fallback: Option<R1CSProof<G>> = program::try_prove::<G>(&Program::parse("C Kb").unwrap(), &env.pc, &env.bp, seed, "c07", Dev::None).ok().and_then(|p| p.obj);
    let mk = |name: &str, prog: &Program, comms: &[G], bytes: &[u8]| -> Inst<G> {
        let proof = match R1CSProof::<G>::from_bytes(bytes) {
            Ok(p) => p,
            Err(_) => {
                // the decoder rejects an encoding the pool needs (decoding is C11's business): fall
                // back to a member that is certainly decodable so that the pool keeps its size
                println!("C07 note: pool member {} does not decode on {} (C11's business); replaced by the gate-free valid proof", name, G::NAME);
                fallback.clone().expect("fallback proof object")
            }
        };
        let ok = program::verify::<G>(prog, &env.pc, &env.bp, seed, Dev::None, comms, &proof, program::LABEL).result.is_ok();
        Inst { name: name.to_string(), prog: prog.clone(), comms: comms.to_vec(), proof, ok }
    };
    let valid_progs = [
        ("valid/0gates", Program::parse("C Kb").unwrap()),
        ("valid/1gate", Program::parse("C M Kg").unwrap()),
        ("valid/2gates-2phase", Program::parse("C M Kg R[Z M Kg Kc]").unwrap()),
        ("valid/3gates", size_program(Kind::AOdd, 3, 0)),
        ("valid/5gates-2phase", size_program(Kind::M, 2, 3)),
    ];
    let mut first: Option<(Program, Vec<G>, Vec<u8>)> = None;
    for (name, prog) in valid_progs.iter() {
        let pr = program::prove::<G>(prog, &env.pc, &env.bp, seed, "c07", Dev::None);
        let bytes = pr.proof.expect("pool proof");
        if *name == "valid/2gates-2phase" {
            first = Some((prog.clone(), pr.commitments.clone(), bytes.clone()));
        }
        out.push(mk(name, prog, &pr.commitments, &bytes));
    }
    // invalid: bad witness
    {
        let prog = Program::parse("C M Kg Kd").unwrap();
        let pr = program::prove::<G>(&prog, &env.pc, &env.bp, seed, "c07", Dev::Witness { idx: 1, delta: G::ScalarField::one() });
        out.push(mk("invalid/bad-witness", &prog, &pr.commitments, &pr.proof.expect("proof")));
    }
    // invalid members of gate-free circuits (a batch made only of gate-free circuits has padded size 1 everywhere)
    {
        let prog = Program::parse("C Kb").unwrap();
        let pr = program::prove::<G>(&prog, &env.pc, &env.bp, seed, "c07", Dev::Witness { idx: 0, delta: G::ScalarField::one() });
        out.push(mk("invalid/0gates-bad-witness", &prog, &pr.commitments, &pr.proof.expect("proof")));
        let pr = program::prove::<G>(&prog, &env.pc, &env.bp, seed, "c07", Dev::None);
        let bytes = pr.proof.expect("proof");
        let parts = Parts::<G>::parse(&bytes).unwrap();
        for (sname, sign) in [("+", true), ("-", false)] {
            let mut p = parts.clone();
            p.b += if sign { G::ScalarField::one() } else { -G::ScalarField::one() };
            out.push(mk(&format!("forged/0gates/b{}1", sname), &prog, &pr.commitments, &p.to_bytes()));
        }
    }
    // structurally malformed members: single verification rejects them before any scalar is formed
    {
        use ark_ec::AffineRepr;
        let (prog2, comms2, bytes2) = first.clone().unwrap();
        let p2 = Parts::<G>::parse(&bytes2).unwrap();
        let mut a = p2.clone();
        a.pts[6] = G::zero();
        out.push(mk("malformed/T_1-identity", &prog2, &comms2, &a.to_bytes()));
        let mut a = p2.clone();
        a.pts[0] = G::zero();
        out.push(mk("malformed/A_I1-identity", &prog2, &comms2, &a.to_bytes()));
        let mut a = p2.clone();
        if !a.l.is_empty() {
            a.l[0] = G::zero();
        }
        out.push(mk("malformed/L0-identity", &prog2, &comms2, &a.to_bytes()));
        // a proof with the round count of a smaller circuit offered to this verifier
        let small = Program::parse("C M Kg").unwrap();
        let pr = program::prove::<G>(&small, &env.pc, &env.bp, seed, "c07", Dev::None);
        out.push(mk("malformed/round-count-of-another-circuit", &prog2, &comms2, &pr.proof.expect("proof")));
    }
    // correlated pairs on one valid proof
    let (prog, comms, bytes) = first.unwrap();
    let parts = Parts::<G>::parse(&bytes).unwrap();
    let ds: Vec<(&str, G::ScalarField)> = vec![("1", G::ScalarField::one()), ("rho", rho::<G::ScalarField>(seed, "c07"))];
    for (fname, which) in [("b", 0), ("a", 1), ("e_blinding", 2), ("t_x_blinding", 3)] {
        for (dname, d) in &ds {
            if which >= 2 && *dname == "rho" {
                continue;
            }
            for (sname, sign) in [("+", true), ("-", false)] {
                let mut p = parts.clone();
                let dd = if sign { *d } else { -*d };
                match which {
                    0 => p.b += dd,
                    1 => p.a += dd,
                    2 => p.sc[2] += dd,
                    _ => p.sc[1] += dd,
                }
                out.push(mk(&format!("forged/{}{}{}", fname, sname, dname), &prog, &comms, &p.to_bytes()));
            }
        }
    }
    // multiples of the same shift: weights that are affine in the member's position (1 + k s,
    // s (k + 1), ...) cancel residuals in the patterns (+d, -2d, +d) and (+2d, -d)
    for (fname, which) in [("b", 0), ("e_blinding", 2)] {
        for (sname, m) in [("+2", 2i64), ("-2", -2i64)] {
            let mut p = parts.clone();
            let dd = if m > 0 { G::ScalarField::from(m as u64) } else { -G::ScalarField::from((-m) as u64) };
            match which {
                0 => p.b += dd,
                _ => p.sc[2] += dd,
            }
            out.push(mk(&format!("forged/{}{}", fname, sname), &prog, &comms, &p.to_bytes()));
        }
    }
    out
}

pub fn run_batch<G: Cv>(env: &Env<G>, pool: &[Inst<G>], idxs: &[usize], seed: u64) -> Result<bool, String> {
    guarded(|| {
        let mut ts: Vec<Transcript> = idxs.iter().map(|_| Transcript::new(program::LABEL)).collect();
        let mut insts = vec![];
        let mut ctxs = vec![];
        for (t, i) in ts.iter_mut().zip(idxs.iter()) {
            let inst = &pool[*i];
            let (v, c) = build_verifier::<G, &mut Transcript>(&inst.prog, &env.pc, t, seed, Dev::None, &inst.comms);
            ctxs.push(c);
            insts.push((v, &inst.proof));
        }
        let mut rng = crate::alphabet::chacha(seed, "c07-batch");
        batch_verify(&mut rng, insts, &env.pc, &env.bp).is_ok()
    })
}

pub fn main(o: &Opts) -> i32 {
    let mut rep = Report::new("C07", o.tier.name(), o.seed, "exploration");
    let maxlen = if o.tier == Tier::Quick { 3 } else { 4 };
    let replay: Option<Value> = o.replay.as_ref().map(|p| serde_json::from_str(&std::fs::read_to_string(p).unwrap()).unwrap());
    rep.curves = CURVES.iter().map(|s| s.to_string()).collect();
    rep.rule = "all ordered batches up to the length bound over the instance pool (valid proofs of several padded sizes and phases, a bad-witness proof, and families of the same valid proof with a final or blinding scalar shifted by +d, -d, +2d, -2d); oracle: batch_verify is Ok iff every member verifies on its own (each on a fresh verifier); non-trivial = batches with at least one invalid member".into();
    let start = rep.start;
    let mut skipped = 0;
    for curve in CURVES {
        if let Some(r) = &replay {
            if r["case"]["curve"].as_str() != Some(curve) {
                continue;
            }
        }
        let (names, oks, results): (Vec<String>, Vec<bool>, Vec<(Vec<usize>, Option<Result<bool, String>>)>) = with_curve!(curve, G => {
            let env = Env::<G>::new(64);
            let pl = pool::<G>(&env, o.seed);
            let n = pl.len();
            let mut batches: Vec<Vec<usize>> = vec![];
            for len in 0..=maxlen {
                batches.extend(cartesian(n, len));
            }
            if let Some(r) = &replay {
                let want: Vec<String> = r["case"]["batch"].as_array().unwrap().iter().map(|x| x.as_str().unwrap().to_string()).collect();
                batches.retain(|b| b.iter().map(|i| pl[*i].name.clone()).collect::<Vec<_>>() == want);
            }
            let res = par_run(&batches, start, o.budget, |_, b| run_batch::<G>(&env, &pl, b, o.seed));
            (pl.iter().map(|i| i.name.clone()).collect(), pl.iter().map(|i| i.ok).collect(), batches.into_iter().zip(res).collect())
        });
        // (the oracle is the conjunction of the members' own individual verdicts, whatever they are)
        for (n, ok) in names.iter().zip(oks.iter()) {
            if n.starts_with("valid/") != *ok {
                rep.count("pool member with unexpected individual verdict (completeness/soundness are C01/C02's business)", 1);
            }
        }
        rep.bounds = json!({"pool": names, "max_batch_len": maxlen});
        for (i, (b, r)) in results.into_iter().enumerate() {
            let bnames: Vec<&String> = b.iter().map(|i| &names[*i]).collect();
            let case = json!({"curve": curve, "batch": bnames});
            if i % 9973 == 1 {
                rep.sample(case.clone());
            }
            let want = b.iter().all(|i| oks[*i]);
            match r {
                None => skipped += 1,
                Some(Err(m)) => {
                    rep.evaluations += 1;
                    rep.violation(Violation { key: case.clone(), case, expected: "returns".into(), observed: format!("panicked: {}", m), note: "batch".into() });
                }
                Some(Ok(got)) => {
                    rep.evaluations += 1;
                    if !want {
                        rep.nontrivial += 1;
                    }
                    let invalid = b.iter().filter(|i| !oks[**i]).count();
                    rep.count(&format!("len={}/invalid-members={}/{}", b.len(), invalid.min(2), if got { "accept" } else { "reject" }), 1);
                    if got != want {
                        rep.count("violation", 1);
                        rep.violation(Violation { key: case.clone(), case, expected: format!("batch_verify {}", if want { "Ok" } else { "Err" }), observed: format!("batch_verify {}", if got { "Ok" } else { "Err" }), note: "batch != conjunction".into() });
                    }
                }
            }
        }
    }
    if skipped > 0 {
        rep.caps_hit.push(format!("time budget reached: {} batches skipped", skipped));
    }
    rep.exhaustive = skipped == 0;
    rep.assumptions = vec!["the batch RNG is a seeded ChaCha; a broken caller RNG is out of scope".into(), "statements range over points of the prime-order subgroup (commitments, Pedersen bases, generators); DESIGN 8.6 lesson 11 explains why the relations are not defined outside it".into()];
    rep.finish()
}
