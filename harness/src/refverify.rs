//! Independent un-batched reference verifier (DESIGN Appendix A): relations (a), (b), (c) with
//! explicit round-by-round folding. Plain group operations, no multiscalar multiplication, no
//! code shared with the crate's verifier.
use crate::program::RefCs;
use crate::proofparts::Parts;
use ark_bulletproofs::{BulletproofGens, PedersenGens};
use ark_ec::AffineRepr;
use ark_ff::{Field, One, Zero};

#[derive(Clone, Debug)]
pub struct Challenges<F> {
    pub y: F,
    pub z: F,
    pub u: F,
    pub x: F,
    pub w: F,
    pub rounds: Vec<F>,
}

#[derive(Clone, Debug, PartialEq)]
pub struct RefVerdict {
    /// (a) all mandatory points non-identity
    pub a: bool,
    /// round count matches the padded size
    pub shape: bool,
    /// (b) committed evaluation relation (None if not evaluated)
    pub b: Option<bool>,
    /// (c) inner-product opening relation with explicit folding
    pub c: Option<bool>,
}
impl RefVerdict {
    pub fn accept(&self) -> bool {
        self.a && self.shape && self.b == Some(true) && self.c == Some(true)
    }
}

/// (a) and the shape rule need no challenges.
pub fn static_part<G: AffineRepr>(parts: &Parts<G>, padded: usize) -> (bool, bool) {
    let mandatory = [0usize, 1, 2, 6, 7, 8, 9, 10];
    let a = mandatory.iter().all(|i| !parts.pts[*i].is_zero()) && parts.l.iter().chain(parts.r.iter()).all(|p| !p.is_zero());
    let shape = parts.l.len() == parts.r.len() && parts.l.len() < 32 && (1usize << parts.l.len()) == padded;
    (a, shape)
}

pub fn refverify<G: AffineRepr>(
    parts: &Parts<G>,
    rc: &RefCs<G::ScalarField>,
    commitments: &[G],
    pc: &PedersenGens<G>,
    bp: &BulletproofGens<G>,
    ch: &Challenges<G::ScalarField>,
) -> RefVerdict {
    let n = rc.gates();
    let n1 = rc.n1();
    let padded = rc.padded();
    let (a_ok, shape) = static_part(parts, padded);
    if !a_ok || !shape {
        return RefVerdict { a: a_ok, shape, b: None, c: None };
    }
    let (wl, wr, wo, wv, wc) = rc.flatten(ch.z);
    let (x, y, u, w) = (ch.x, ch.y, ch.u, ch.w);
    let yinv = y.inverse().expect("y != 0");
    let ypow: Vec<G::ScalarField> = {
        let mut v = vec![];
        let mut acc = G::ScalarField::one();
        for _ in 0..padded {
            v.push(acc);
            acc *= yinv;
        }
        v
    };
    let x2 = x * x;
    let x3 = x2 * x;
    let (t_x, t_xb, e_b) = (parts.sc[0], parts.sc[1], parts.sc[2]);
    let b_pt = pc.B.into_group();
    let bb_pt = pc.B_blinding.into_group();
    // ---- (b)
    let mut delta = G::ScalarField::zero();
    for i in 0..n {
        delta += ypow[i] * wr[i] * wl[i];
    }
    let lhs = b_pt * t_x + bb_pt * t_xb;
    let mut rhs = b_pt * (x2 * (wc + delta));
    for (j, v) in commitments.iter().enumerate() {
        rhs += v.into_group() * (x2 * wv[j]);
    }
    let tpow = [x, x3, x3 * x, x3 * x2, x3 * x3];
    for (i, p) in tpow.iter().enumerate() {
        rhs += parts.pts[6 + i].into_group() * p;
    }
    let b_ok = lhs == rhs;
    // ---- (c)
    let gs: Vec<G> = bp.G(padded, 1).cloned().collect();
    let hs: Vec<G> = bp.H(padded, 1).cloned().collect();
    let phi = |i: usize| if i < n1 { G::ScalarField::one() } else { u };
    let q = b_pt * w;
    let mut p = bb_pt * (-e_b);
    p += parts.pts[0].into_group() * x + parts.pts[1].into_group() * x2 + parts.pts[2].into_group() * x3;
    p += (parts.pts[3].into_group() * x + parts.pts[4].into_group() * x2 + parts.pts[5].into_group() * x3) * u;
    for i in 0..padded {
        let (wli, wri, woi) = if i < n { (wl[i], wr[i], wo[i]) } else { (G::ScalarField::zero(), G::ScalarField::zero(), G::ScalarField::zero()) };
        p += gs[i].into_group() * (phi(i) * x * ypow[i] * wri);
        p += hs[i].into_group() * (phi(i) * ypow[i] * (x * wli + woi) - phi(i));
    }
    p += q * t_x;
    let mut gp: Vec<G::Group> = (0..padded).map(|i| gs[i].into_group() * phi(i)).collect();
    let mut hp: Vec<G::Group> = (0..padded).map(|i| hs[i].into_group() * (phi(i) * ypow[i])).collect();
    for (j, uj) in ch.rounds.iter().enumerate() {
        let ui = uj.inverse().expect("u_j != 0");
        p = parts.l[j].into_group() * (*uj * *uj) + p + parts.r[j].into_group() * (ui * ui);
        let m = gp.len() / 2;
        let mut g2 = Vec::with_capacity(m);
        let mut h2 = Vec::with_capacity(m);
        for i in 0..m {
            g2.push(gp[i] * ui + gp[m + i] * *uj);
            h2.push(hp[i] * *uj + hp[m + i] * ui);
        }
        gp = g2;
        hp = h2;
    }
    let c_ok = gp.len() == 1 && p == gp[0] * parts.a + hp[0] * parts.b + q * (parts.a * parts.b);
    RefVerdict { a: true, shape: true, b: Some(b_ok), c: Some(c_ok) }
}
