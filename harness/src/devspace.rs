//! Deviation alphabet over decoded proofs (DESIGN §3.4): every single algebraic departure from a
//! base proof, applied at every position where it type-checks.
use crate::alphabet::{deltas, DELTA_NAMES};
use crate::curves::Cv;
use crate::proofparts::{Parts, POINT_NAMES, SCALAR_NAMES};
use ark_bulletproofs::PedersenGens;
use ark_ec::{AffineRepr, CurveGroup};
use ark_ff::Zero;

#[derive(Clone, Copy, Debug, PartialEq, Eq, Hash)]
pub enum Slot {
    Pt(usize),
    L(usize),
    R(usize),
    Sc(usize),
    A,
    B,
}
impl Slot {
    pub fn name(&self) -> String {
        match self {
            Slot::Pt(i) => POINT_NAMES[*i].to_string(),
            Slot::L(j) => format!("L[{}]", j),
            Slot::R(j) => format!("R[{}]", j),
            Slot::Sc(i) => SCALAR_NAMES[*i].to_string(),
            Slot::A => "a".into(),
            Slot::B => "b".into(),
        }
    }
    pub fn is_point(&self) -> bool {
        matches!(self, Slot::Pt(_) | Slot::L(_) | Slot::R(_))
    }
}

#[derive(Clone, Debug, PartialEq, Eq, Hash)]
pub enum PDev {
    PtIdentity(Slot),
    PtNeg(Slot),
    PtAddB(Slot),
    PtAddBb(Slot),
    PtAddT8(Slot),
    PtT8(Slot),
    Copy { dst: Slot, src: Slot },
    Swap(Slot, Slot),
    ScZero(Slot),
    ScNeg(Slot),
    ScAdd(Slot, usize),
    DropLast,
    DropFirst,
    DupRound(usize),
    SwapRounds(usize, usize),
    SwapLR(usize),
    AppendRound,
}

impl PDev {
    pub fn name(&self) -> String {
        match self {
            PDev::PtIdentity(s) => format!("{} <- identity", s.name()),
            PDev::PtNeg(s) => format!("{} <- -{}", s.name(), s.name()),
            PDev::PtAddB(s) => format!("{} += B", s.name()),
            PDev::PtAddBb(s) => format!("{} += B_blinding", s.name()),
            PDev::PtAddT8(s) => format!("{} += T8", s.name()),
            PDev::PtT8(s) => format!("{} <- T8", s.name()),
            PDev::Copy { dst, src } => format!("{} <- {}", dst.name(), src.name()),
            PDev::Swap(a, b) => format!("swap {} <-> {}", a.name(), b.name()),
            PDev::ScZero(s) => format!("{} <- 0", s.name()),
            PDev::ScNeg(s) => format!("{} <- -{}", s.name(), s.name()),
            PDev::ScAdd(s, d) => format!("{} += {}", s.name(), DELTA_NAMES[*d]),
            PDev::DropLast => "drop last round".into(),
            PDev::DropFirst => "drop first round".into(),
            PDev::DupRound(j) => format!("duplicate round {}", j),
            PDev::SwapRounds(i, j) => format!("swap rounds {} and {}", i, j),
            PDev::SwapLR(j) => format!("swap L[{}] <-> R[{}]", j, j),
            PDev::AppendRound => "append a fresh round".into(),
        }
    }
}

pub fn slots<G: AffineRepr>(p: &Parts<G>) -> (Vec<Slot>, Vec<Slot>) {
    let mut pts: Vec<Slot> = (0..11).map(Slot::Pt).collect();
    pts.extend((0..p.l.len()).map(Slot::L));
    pts.extend((0..p.r.len()).map(Slot::R));
    let mut scs: Vec<Slot> = (0..3).map(Slot::Sc).collect();
    scs.push(Slot::A);
    scs.push(Slot::B);
    (pts, scs)
}

pub fn get_pt<G: AffineRepr>(p: &Parts<G>, s: Slot) -> G {
    match s {
        Slot::Pt(i) => p.pts[i],
        Slot::L(j) => p.l[j],
        Slot::R(j) => p.r[j],
        _ => unreachable!(),
    }
}
pub fn set_pt<G: AffineRepr>(p: &mut Parts<G>, s: Slot, v: G) {
    match s {
        Slot::Pt(i) => p.pts[i] = v,
        Slot::L(j) => p.l[j] = v,
        Slot::R(j) => p.r[j] = v,
        _ => unreachable!(),
    }
}
pub fn get_sc<G: AffineRepr>(p: &Parts<G>, s: Slot) -> G::ScalarField {
    match s {
        Slot::Sc(i) => p.sc[i],
        Slot::A => p.a,
        Slot::B => p.b,
        _ => unreachable!(),
    }
}
pub fn set_sc<G: AffineRepr>(p: &mut Parts<G>, s: Slot, v: G::ScalarField) {
    match s {
        Slot::Sc(i) => p.sc[i] = v,
        Slot::A => p.a = v,
        Slot::B => p.b = v,
        _ => unreachable!(),
    }
}

/// Every single deviation of the algebraic alphabet that keeps |L| = |R|.
/// `pairs`: include every ordered same-type copy and unordered swap (quadratic in the slot count).
pub fn singles<G: Cv>(p: &Parts<G>, pairs: bool) -> Vec<PDev> {
    let (pts, scs) = slots(p);
    let mut out = vec![];
    for s in &pts {
        out.push(PDev::PtIdentity(*s));
        out.push(PDev::PtNeg(*s));
        out.push(PDev::PtAddB(*s));
        out.push(PDev::PtAddBb(*s));
        if G::torsion8().is_some() {
            out.push(PDev::PtAddT8(*s));
            out.push(PDev::PtT8(*s));
        }
    }
    for s in &scs {
        out.push(PDev::ScZero(*s));
        out.push(PDev::ScNeg(*s));
        for d in 0..3 {
            out.push(PDev::ScAdd(*s, d));
        }
    }
    if pairs {
        for (i, a) in pts.iter().enumerate() {
            for (j, b) in pts.iter().enumerate() {
                if i != j {
                    out.push(PDev::Copy { dst: *a, src: *b });
                }
                if i < j {
                    out.push(PDev::Swap(*a, *b));
                }
            }
        }
        for (i, a) in scs.iter().enumerate() {
            for (j, b) in scs.iter().enumerate() {
                if i != j {
                    out.push(PDev::Copy { dst: *a, src: *b });
                }
                if i < j {
                    out.push(PDev::Swap(*a, *b));
                }
            }
        }
    }
    let k = p.l.len();
    if k > 0 {
        out.push(PDev::DropLast);
        if k > 1 {
            out.push(PDev::DropFirst);
        }
        for j in 0..k {
            out.push(PDev::DupRound(j));
            out.push(PDev::SwapLR(j));
            for i in 0..j {
                out.push(PDev::SwapRounds(i, j));
            }
        }
    }
    out.push(PDev::AppendRound);
    out
}

pub fn apply<G: Cv>(p: &Parts<G>, d: &PDev, pc: &PedersenGens<G>, seed: u64) -> Parts<G> {
    let mut q = p.clone();
    let t8 = G::torsion8();
    match d {
        PDev::PtIdentity(s) => set_pt(&mut q, *s, G::zero()),
        PDev::PtNeg(s) => set_pt(&mut q, *s, (-get_pt(p, *s).into_group()).into_affine()),
        PDev::PtAddB(s) => set_pt(&mut q, *s, (get_pt(p, *s).into_group() + pc.B).into_affine()),
        PDev::PtAddBb(s) => set_pt(&mut q, *s, (get_pt(p, *s).into_group() + pc.B_blinding).into_affine()),
        PDev::PtAddT8(s) => set_pt(&mut q, *s, (get_pt(p, *s).into_group() + t8.unwrap()).into_affine()),
        PDev::PtT8(s) => set_pt(&mut q, *s, t8.unwrap()),
        PDev::Copy { dst, src } => {
            if dst.is_point() {
                set_pt(&mut q, *dst, get_pt(p, *src))
            } else {
                set_sc(&mut q, *dst, get_sc(p, *src))
            }
        }
        PDev::Swap(a, b) => {
            if a.is_point() {
                set_pt(&mut q, *a, get_pt(p, *b));
                set_pt(&mut q, *b, get_pt(p, *a));
            } else {
                set_sc(&mut q, *a, get_sc(p, *b));
                set_sc(&mut q, *b, get_sc(p, *a));
            }
        }
        PDev::ScZero(s) => set_sc(&mut q, *s, G::ScalarField::zero()),
        PDev::ScNeg(s) => set_sc(&mut q, *s, -get_sc(p, *s)),
        PDev::ScAdd(s, di) => set_sc(&mut q, *s, get_sc(p, *s) + deltas::<G::ScalarField>(seed)[*di]),
        PDev::DropLast => {
            q.l.pop();
            q.r.pop();
        }
        PDev::DropFirst => {
            q.l.remove(0);
            q.r.remove(0);
        }
        PDev::DupRound(j) => {
            q.l.insert(*j, p.l[*j]);
            q.r.insert(*j, p.r[*j]);
        }
        PDev::SwapRounds(i, j) => {
            q.l.swap(*i, *j);
            q.r.swap(*i, *j);
        }
        PDev::SwapLR(j) => {
            q.l[*j] = p.r[*j];
            q.r[*j] = p.l[*j];
        }
        PDev::AppendRound => {
            q.l.push(pc.B);
            q.r.push(pc.B_blinding);
        }
    }
    q
}
