//! The protocol's transcript schedule as a monitor automaton over recorded Merlin events.
use crate::curves::{pt_bytes, pt_bytes_unc, sc_bytes};
use crate::program::{Op, Program};
use crate::proofparts::{Parts, POINT_NAMES, SCALAR_NAMES};
use crate::recorder::{label_str, Event};
use ark_ec::AffineRepr;

#[derive(Clone, Debug)]
pub enum Step {
    /// an append whose payload must be one of `payloads` (empty list: any non-empty payload)
    Append { name: String, payloads: Vec<Vec<u8>> },
    Challenge { name: String },
}
impl Step {
    pub fn name(&self) -> &str {
        match self {
            Step::Append { name, .. } | Step::Challenge { name } => name,
        }
    }
}

/// a count absorbed as an integer: u64 or u32, little or big endian, all count as a full encoding
fn int_payloads(v: u64) -> Vec<Vec<u8>> {
    let mut out = vec![v.to_le_bytes().to_vec(), v.to_be_bytes().to_vec()];
    if v <= u32::MAX as u64 {
        out.push((v as u32).to_le_bytes().to_vec());
        out.push((v as u32).to_be_bytes().to_vec());
    }
    out
}

fn point_step<G: AffineRepr>(name: &str, p: &G) -> Step {
    // compressed or uncompressed both count as a full encoding
    Step::Append { name: name.to_string(), payloads: vec![pt_bytes_unc(p), pt_bytes(p)] }
}

/// Expected main-transcript schedule of an honest run of `prog` (prover or verifier).
pub fn expected_steps<G: AffineRepr>(prog: &Program, commitments: &[G], parts: &Parts<G>) -> Vec<Step> {
    let order: Vec<usize> = (0..prog.closures.len()).collect();
    expected_steps_ordered(prog, commitments, parts, &order)
}

/// As `expected_steps`, with the closures in the order the subject actually invoked them.
pub fn expected_steps_ordered<G: AffineRepr>(prog: &Program, commitments: &[G], parts: &Parts<G>, order: &[usize]) -> Vec<Step> {
    let mut s = vec![];
    let any = |name: &str| Step::Append { name: name.to_string(), payloads: vec![] };
    s.push(any("dom-sep:application label"));
    s.push(any("dom-sep:r1cs"));
    let mut vj = 0usize;
    let mut tcount = 0u64;
    for op in &prog.p1 {
        match op {
            Op::C | Op::CD | Op::C0 => {
                s.push(point_step(&format!("V[{}]", vj), &commitments[vj]));
                vj += 1;
            }
            Op::T => {
                s.push(Step::Append { name: format!("app[{}]", tcount), payloads: vec![tcount.to_le_bytes().to_vec()] });
                tcount += 1;
            }
            _ => {}
        }
    }
    s.push(Step::Append { name: "m".into(), payloads: int_payloads(vj as u64) });
    for i in 0..3 {
        s.push(point_step(POINT_NAMES[i], &parts.pts[i]));
    }
    s.push(any(if prog.closures.is_empty() { "dom-sep:1phase" } else { "dom-sep:2phase" }));
    let mut zc = 0;
    for ci in order {
        let body = &prog.closures[*ci];
        for op in body {
            match op {
                Op::Z => {
                    s.push(Step::Challenge { name: format!("user[{}]", zc) });
                    zc += 1;
                }
                Op::T => {
                    s.push(Step::Append { name: format!("app[{}]", tcount), payloads: vec![tcount.to_le_bytes().to_vec()] });
                    tcount += 1;
                }
                _ => {}
            }
        }
    }
    for i in 3..6 {
        s.push(point_step(POINT_NAMES[i], &parts.pts[i]));
    }
    s.push(Step::Challenge { name: "y".into() });
    s.push(Step::Challenge { name: "z".into() });
    for i in 6..11 {
        s.push(point_step(POINT_NAMES[i], &parts.pts[i]));
    }
    s.push(Step::Challenge { name: "u".into() });
    s.push(Step::Challenge { name: "x".into() });
    for i in 0..3 {
        s.push(Step::Append { name: SCALAR_NAMES[i].to_string(), payloads: vec![sc_bytes(&parts.sc[i])] });
    }
    s.push(Step::Challenge { name: "w".into() });
    s.push(any("dom-sep:ipp"));
    let n = 1u64 << parts.l.len();
    s.push(Step::Append { name: "ipp n".into(), payloads: int_payloads(n) });
    for j in 0..parts.l.len() {
        s.push(point_step(&format!("L[{}]", j), &parts.l[j]));
        s.push(point_step(&format!("R[{}]", j), &parts.r[j]));
        s.push(Step::Challenge { name: format!("u[{}]", j) });
    }
    s
}

#[derive(Clone, Debug)]
pub struct MainEvent {
    pub is_challenge: bool,
    pub label: String,
    pub data: Vec<u8>,
    /// index in the full event list
    pub at: usize,
}

/// Id of the transcript the harness created first, and its append/challenge events.
pub fn main_events(ev: &[Event]) -> (u64, Vec<MainEvent>) {
    let main = ev
        .iter()
        .find_map(|e| match e {
            Event::Append { id, .. } | Event::Challenge { id, .. } => Some(*id),
            _ => None,
        })
        .unwrap_or(0);
    let mut out = vec![];
    for (i, e) in ev.iter().enumerate() {
        match e {
            Event::Append { id, label, msg } if *id == main => out.push(MainEvent { is_challenge: false, label: label_str(label), data: msg.clone(), at: i }),
            Event::Challenge { id, label, out: o } if *id == main => out.push(MainEvent { is_challenge: true, label: label_str(label), data: o.clone(), at: i }),
            _ => {}
        }
    }
    (main, out)
}

#[derive(Clone, Debug)]
pub struct Matched {
    /// (step name, label used, challenge output) for every challenge step
    pub challenges: Vec<(String, String, Vec<u8>)>,
    /// (step name, label used) for every step
    pub labels: Vec<(String, String)>,
    pub consumed: usize,
}
impl Matched {
    pub fn challenge(&self, name: &str) -> Option<&Vec<u8>> {
        self.challenges.iter().find(|c| c.0 == name).map(|c| &c.2)
    }
}

/// Run the monitor: consume `events` step by step. Err = first divergence.
pub fn run_monitor(steps: &[Step], events: &[MainEvent]) -> Result<Matched, String> {
    let mut m = Matched { challenges: vec![], labels: vec![], consumed: 0 };
    for (i, st) in steps.iter().enumerate() {
        let Some(e) = events.get(i) else {
            return Err(format!("transcript ends after {} events; monitor expects step #{} {:?}", events.len(), i, st.name()));
        };
        match st {
            Step::Append { name, payloads } => {
                if e.is_challenge {
                    return Err(format!("step #{} {}: expected an append, the transcript squeezed challenge {:?} (before absorbing {})", i, name, e.label, name));
                }
                if payloads.is_empty() {
                    if e.data.is_empty() {
                        return Err(format!("step #{} {}: empty payload", i, name));
                    }
                } else if !payloads.contains(&e.data) {
                    return Err(format!("step #{} {}: append {:?} carries {} bytes that are not the expected full encoding", i, name, e.label, e.data.len()));
                }
            }
            Step::Challenge { name } => {
                if !e.is_challenge {
                    return Err(format!("step #{} {}: expected a challenge, the transcript absorbed {:?}", i, name, e.label));
                }
                m.challenges.push((name.clone(), e.label.clone(), e.data.clone()));
            }
        }
        m.labels.push((st.name().to_string(), e.label.clone()));
        m.consumed += 1;
    }
    if events.len() > steps.len() {
        let e = &events[steps.len()];
        return Err(format!("unexpected extra {} {:?} after the last protocol step", if e.is_challenge { "challenge" } else { "append" }, e.label));
    }
    Ok(m)
}

/// Prefix monitor for runs that may stop early (a verifier rejecting a proof): every recorded
/// event must match the step at its position; the run may end before the schedule does.
pub fn run_monitor_prefix(steps: &[Step], events: &[MainEvent]) -> Result<usize, String> {
    if events.len() > steps.len() {
        return Err(format!("{} events but the schedule has only {} steps", events.len(), steps.len()));
    }
    for (i, e) in events.iter().enumerate() {
        match &steps[i] {
            Step::Append { name, payloads } => {
                if e.is_challenge {
                    return Err(format!("step #{} {}: expected an append, the transcript squeezed challenge {:?}", i, name, e.label));
                }
                if !payloads.is_empty() && !payloads.contains(&e.data) {
                    return Err(format!("step #{} {}: the transcript absorbed {} bytes that are not the full encoding of the element the proof carries", i, name, e.data.len()));
                }
            }
            Step::Challenge { name } => {
                if !e.is_challenge {
                    return Err(format!("step #{} {}: expected a challenge, the transcript absorbed {:?}", i, name, e.label));
                }
            }
        }
    }
    Ok(events.len())
}
