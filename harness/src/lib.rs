pub mod alloc_count;
pub mod alphabet;
pub mod curves;
pub mod devspace;
pub mod evidence;
pub mod program;
pub mod proofparts;
pub mod props;
