//! A reference prover written from the protocol description (DESIGN Appendix A), able to
//! *deviate during the run*: one message is replaced at the moment it is produced, everything
//! after it is computed honestly under the challenges the deviated transcript yields. This is the
//! "single deviation in the protocol run" space, which post-hoc edits of a finished proof cannot
//! reach because the transcript binds every message.
//!
//! Labels and domain-separator payloads are not hard-wired: they are learnt from a recorded
//! honest run of the real prover on the current tree (`Labels::learn`), so a consistent
//! re-labelling does not make this prover's proofs fail (that is C18's business).
use crate::alphabet;
use crate::curves::{pt_bytes, pt_bytes_unc, sc_bytes, Cv};
use crate::devspace::Slot;
use crate::program::{exec_op, finish_ctx, Ctx, Dev, Env, Program, Role, Side};
use crate::proofparts::Parts;
use crate::recorder::scalar_from_challenge;
use crate::schedule::Matched;
use ark_bulletproofs::r1cs::{ConstraintSystem, LinearCombination, R1CSError, Variable};
use ark_ec::{AffineRepr, CurveGroup};
use ark_ff::{Field, One, PrimeField, UniformRand, Zero};
use merlin::Transcript;
use std::collections::HashMap;

#[derive(Clone, Debug)]
pub struct Labels {
    pub label: HashMap<String, &'static [u8]>,
    pub payload: HashMap<String, Vec<u8>>,
    /// the honest run absorbed points in compressed form (learnt from the payload lengths)
    pub compressed_points: bool,
    /// width (4 or 8 bytes) and endianness of the absorbed counts, learnt from the `m` step of a
    /// run with one commitment
    pub int_width: usize,
    pub int_big_endian: bool,
}
fn leak(s: &str) -> &'static [u8] {
    Box::leak(s.as_bytes().to_vec().into_boxed_slice())
}
impl Labels {
    /// from the matched schedule(s) of honest real runs
    pub fn learn(runs: &[(&Matched, &[crate::schedule::MainEvent])]) -> Labels {
        let mut label = HashMap::new();
        let mut payload = HashMap::new();
        let mut point_len = 0usize;
        let (mut int_width, mut int_big_endian) = (8usize, false);
        for (m, ev) in runs {
            for (i, (step, l)) in m.labels.iter().enumerate() {
                if step == "A_I1" {
                    point_len = ev[i].data.len();
                }
                if step == "m" {
                    int_width = ev[i].data.len();
                    int_big_endian = ev[i].data.last() == Some(&1) && ev[i].data.len() > 1;
                }
                let class = match step.find('[') {
                    Some(p) => {
                        let b = &step[..p];
                        if b == "u" {
                            "u[j]".to_string()
                        } else {
                            b.to_string()
                        }
                    }
                    None => step.clone(),
                };
                label.entry(class).or_insert_with(|| leak(l));
                if step.starts_with("dom-sep") {
                    payload.entry(step.clone()).or_insert_with(|| ev[i].data.clone());
                }
            }
        }
        // compressed encodings are 32 or 33 bytes on the supported curves, uncompressed ones 64 or 65
        Labels { label, payload, compressed_points: point_len > 0 && point_len < 48, int_width, int_big_endian }
    }
    pub fn int(&self, v: u64) -> Vec<u8> {
        let le = v.to_le_bytes();
        let mut b: Vec<u8> = le[..self.int_width.min(8)].to_vec();
        if self.int_big_endian {
            b.reverse();
        }
        b
    }
    pub fn enc<G: AffineRepr>(&self, p: &G) -> Vec<u8> {
        if self.compressed_points {
            pt_bytes(p)
        } else {
            pt_bytes_unc(p)
        }
    }
    pub fn l(&self, class: &str) -> &'static [u8] {
        self.label.get(class).cloned().unwrap_or_else(|| panic!("label for {} not learnt", class))
    }
    pub fn complete(&self) -> bool {
        ["V", "m", "A_I1", "A_O1", "S1", "A_I2", "A_O2", "S2", "y", "z", "T_1", "T_3", "T_4", "T_5", "T_6", "u", "x", "t_x", "t_x_blinding", "e_blinding", "w", "ipp n", "L", "R", "u[j]", "dom-sep:r1cs", "dom-sep:ipp"]
            .iter()
            .all(|k| self.label.contains_key(*k))
            && self.payload.contains_key("dom-sep:r1cs")
            && self.payload.contains_key("dom-sep:ipp")
            && self.payload.contains_key("dom-sep:1phase")
            && self.payload.contains_key("dom-sep:2phase")
    }
}

/// A constraint system that only hands out handles and owns the transcript; the lock-step
/// `RefCs` inside the interpretation context keeps the actual model.
pub struct ModelCs<F: PrimeField> {
    pub t: Transcript,
    gates: usize,
    pending: Option<usize>,
    commits: usize,
    _f: std::marker::PhantomData<F>,
}
impl<F: PrimeField> ConstraintSystem<F> for ModelCs<F> {
    fn transcript(&mut self) -> &mut Transcript {
        &mut self.t
    }
    fn multiply(&mut self, _l: LinearCombination<F>, _r: LinearCombination<F>) -> (Variable<F>, Variable<F>, Variable<F>) {
        let i = self.gates;
        self.gates += 1;
        (Variable::MultiplierLeft(i), Variable::MultiplierRight(i), Variable::MultiplierOutput(i))
    }
    fn allocate(&mut self, _a: Option<F>) -> Result<Variable<F>, R1CSError> {
        match self.pending {
            None => {
                let i = self.gates;
                self.gates += 1;
                self.pending = Some(i);
                Ok(Variable::MultiplierLeft(i))
            }
            Some(i) => {
                self.pending = None;
                Ok(Variable::MultiplierRight(i))
            }
        }
    }
    fn allocate_multiplier(&mut self, _a: Option<(F, F)>) -> Result<(Variable<F>, Variable<F>, Variable<F>), R1CSError> {
        let i = self.gates;
        self.gates += 1;
        Ok((Variable::MultiplierLeft(i), Variable::MultiplierRight(i), Variable::MultiplierOutput(i)))
    }
    fn multipliers_len(&self) -> usize {
        self.gates
    }
    fn constrain(&mut self, _lc: LinearCombination<F>) {}
}

struct ModelSide<'a, G: Cv> {
    cs: &'a mut ModelCs<G::ScalarField>,
    pc: ark_bulletproofs::PedersenGens<G>,
    labels: &'a Labels,
    comms: &'a mut Vec<G>,
    user_label: &'static [u8],
}
fn challenge<F: PrimeField>(t: &mut Transcript, label: &'static [u8]) -> F {
    let mut buf = [0u8; 32];
    t.challenge_bytes(label, &mut buf);
    scalar_from_challenge::<F>(&buf)
}
impl<'a, G: Cv> Side<G::ScalarField> for ModelSide<'a, G> {
    fn cs(&mut self) -> &mut dyn ConstraintSystem<G::ScalarField> {
        self.cs
    }
    fn commit(&mut self, v: G::ScalarField, blind: G::ScalarField) -> Variable<G::ScalarField> {
        let c = (self.pc.B.into_group() * v + self.pc.B_blinding.into_group() * blind).into_affine();
        self.cs.t.append_message(self.labels.l("V"), &self.labels.enc(&c));
        self.comms.push(c);
        let i = self.cs.commits;
        self.cs.commits += 1;
        Variable::Committed(i)
    }
    fn challenge(&mut self) -> G::ScalarField {
        challenge::<G::ScalarField>(&mut self.cs.t, self.user_label)
    }
}

/// What to replace, at the moment it is produced.
#[derive(Clone, Debug, PartialEq, Eq, Hash)]
pub enum RunDevKind {
    AddB,
    AddBb,
    AddG0,
    Neg,
    Identity,
    ScAddOne,
    ScZero,
}
#[derive(Clone, Debug, PartialEq, Eq, Hash)]
pub struct RunDev {
    pub slot: Slot,
    pub kind: RunDevKind,
}
impl RunDev {
    pub fn name(&self) -> String {
        let k = match self.kind {
            RunDevKind::AddB => "+= B",
            RunDevKind::AddBb => "+= B_blinding",
            RunDevKind::AddG0 => "+= G[0]",
            RunDevKind::Neg => "negated",
            RunDevKind::Identity => "<- identity",
            RunDevKind::ScAddOne => "+= 1",
            RunDevKind::ScZero => "<- 0",
        };
        format!("during the run: {} {}", self.slot.name(), k)
    }
}
pub fn run_devs(k: usize) -> Vec<RunDev> {
    let mut out = vec![];
    let mut pts: Vec<Slot> = (0..11).map(Slot::Pt).collect();
    for j in 0..k {
        pts.push(Slot::L(j));
        pts.push(Slot::R(j));
    }
    for s in pts {
        for kind in [RunDevKind::AddB, RunDevKind::AddBb, RunDevKind::AddG0, RunDevKind::Neg, RunDevKind::Identity] {
            out.push(RunDev { slot: s, kind: kind.clone() });
        }
    }
    for s in [Slot::Sc(0), Slot::Sc(1), Slot::Sc(2), Slot::A, Slot::B] {
        out.push(RunDev { slot: s, kind: RunDevKind::ScAddOne });
        out.push(RunDev { slot: s, kind: RunDevKind::ScZero });
    }
    out
}

pub struct RefProved<G: Cv> {
    pub parts: Parts<G>,
    pub comms: Vec<G>,
    pub ctx: Ctx<G::ScalarField>,
}

fn dev_point<G: Cv>(dev: &Option<RunDev>, slot: Slot, p: G::Group, env: &Env<G>, g0: &G) -> G {
    let p = match dev {
        Some(d) if d.slot == slot => match d.kind {
            RunDevKind::AddB => p + env.pc.B,
            RunDevKind::AddBb => p + env.pc.B_blinding,
            RunDevKind::AddG0 => p + g0,
            RunDevKind::Neg => -p,
            RunDevKind::Identity => G::Group::zero(),
            _ => p,
        },
        _ => p,
    };
    p.into_affine()
}
fn dev_scalar<F: PrimeField>(dev: &Option<RunDev>, slot: Slot, s: F) -> F {
    match dev {
        Some(d) if d.slot == slot => match d.kind {
            RunDevKind::ScAddOne => s + F::one(),
            RunDevKind::ScZero => F::zero(),
            _ => s,
        },
        _ => s,
    }
}

fn ip<F: PrimeField>(a: &[F], b: &[F]) -> F {
    a.iter().zip(b.iter()).map(|(x, y)| *x * y).sum()
}
fn msm<G: Cv>(pts: &[G], sc: &[G::ScalarField]) -> G::Group {
    let mut acc = G::Group::zero();
    for (p, s) in pts.iter().zip(sc.iter()) {
        if !s.is_zero() {
            acc += p.into_group() * s;
        }
    }
    acc
}

/// Run the reference prover for `prog` (witness from the program's value rotation), optionally
/// with one deviation during the run.
/// Groups of random draws of the prover; a bit set in `zero_mask` makes every draw of that group zero
/// (a prover is free to choose its randomness: the proof stays consistent with relations (b) and (c),
/// but some mandatory points may become the identity, which relation (a) must catch).
pub const ZERO_GROUPS: [&str; 10] = ["iota", "omicron", "sigma", "s_L", "s_R", "tau1", "tau3", "tau4", "tau5", "tau6"];

pub fn ref_prove<G: Cv>(env: &Env<G>, labels: &Labels, prog: &Program, seed: u64, rng_tag: &str, dev: Option<RunDev>) -> Result<RefProved<G>, String> {
    let order: Vec<usize> = (0..prog.closures.len()).collect();
    ref_prove_z::<G>(env, labels, prog, seed, rng_tag, dev, 0, &order)
}

/// `order`: the order in which the subject invokes the randomized closures (learnt from a real run)
pub fn ref_prove_z<G: Cv>(env: &Env<G>, labels: &Labels, prog: &Program, seed: u64, rng_tag: &str, dev: Option<RunDev>, zero_mask: u32, order: &[usize]) -> Result<RefProved<G>, String> {
    type F<G> = <G as AffineRepr>::ScalarField;
    let mut rng = alphabet::chacha(seed, rng_tag);
    let mut cs = ModelCs::<F<G>> { t: Transcript::new(crate::program::LABEL), gates: 0, pending: None, commits: 0, _f: Default::default() };
    cs.t.append_message(labels.l("dom-sep:r1cs"), &labels.payload["dom-sep:r1cs"]);
    let mut ctx = Ctx::<F<G>>::new(Role::Prover, seed, prog.values.clone(), Dev::None);
    let mut comms: Vec<G> = vec![];
    let user_label = labels.label.get("user").cloned().unwrap_or(b"ch");
    {
        let mut side = ModelSide::<G> { cs: &mut cs, pc: env.pc, labels, comms: &mut comms, user_label };
        for op in &prog.p1 {
            exec_op(*op, &mut ctx, &mut side);
        }
    }
    let m = comms.len();
    cs.t.append_message(labels.l("m"), &labels.int(m as u64));
    let n1 = ctx.refcs.gates();
    let cap = env.bp.gens_capacity;
    let gs: Vec<G> = env.bp.G(cap, 1).cloned().collect();
    let hs: Vec<G> = env.bp.H(cap, 1).cloned().collect();
    let g0 = gs[0];
    let bb = env.pc.B_blinding.into_group();
    let bpt = env.pc.B.into_group();
    let mut draw_g = |group: usize| {
        let v = F::<G>::rand(&mut rng);
        if zero_mask & (1 << group) != 0 {
            F::<G>::zero()
        } else {
            v
        }
    };
    // ---- phase 1 commitments
    let (i1, o1, s1) = (draw_g(0), draw_g(1), draw_g(2));
    let sl1: Vec<F<G>> = (0..n1).map(|_| draw_g(3)).collect();
    let sr1: Vec<F<G>> = (0..n1).map(|_| draw_g(4)).collect();
    let asg = ctx.refcs.actual.clone();
    let a_i1 = dev_point::<G>(&dev, Slot::Pt(0), msm::<G>(&gs[..n1], &asg.l[..n1]) + msm::<G>(&hs[..n1], &asg.r[..n1]) + bb * i1, env, &g0);
    let a_o1 = dev_point::<G>(&dev, Slot::Pt(1), msm::<G>(&gs[..n1], &asg.o[..n1]) + bb * o1, env, &g0);
    let s_1 = dev_point::<G>(&dev, Slot::Pt(2), msm::<G>(&gs[..n1], &sl1) + msm::<G>(&hs[..n1], &sr1) + bb * s1, env, &g0);
    cs.t.append_message(labels.l("A_I1"), &labels.enc(&a_i1));
    cs.t.append_message(labels.l("A_O1"), &labels.enc(&a_o1));
    cs.t.append_message(labels.l("S1"), &labels.enc(&s_1));
    // ---- phase switch and randomized closures
    ctx.refcs.phase_switch();
    cs.pending = None;
    if prog.closures.is_empty() {
        cs.t.append_message(labels.l("dom-sep:1phase"), &labels.payload["dom-sep:1phase"]);
    } else {
        cs.t.append_message(labels.l("dom-sep:2phase"), &labels.payload["dom-sep:2phase"]);
        let mut side = ModelSide::<G> { cs: &mut cs, pc: env.pc, labels, comms: &mut comms, user_label };
        for ci in order {
            let body = &prog.closures[*ci];
            for op in body {
                exec_op(*op, &mut ctx, &mut side);
            }
            ctx.closures_run += 1;
        }
    }
    finish_ctx(&mut ctx);
    if !ctx.problems.is_empty() {
        return Err(format!("reference interpretation problems: {:?}", ctx.problems));
    }
    let asg = ctx.refcs.actual.clone();
    let n = ctx.refcs.gates();
    let n2 = n - n1;
    let padded = n.max(1).next_power_of_two();
    if padded > cap {
        return Err("capacity".into());
    }
    // ---- phase 2 commitments
    let (i2, o2, s2) = if n2 > 0 { (draw_g(0), draw_g(1), draw_g(2)) } else { (F::<G>::zero(), F::<G>::zero(), F::<G>::zero()) };
    let sl2: Vec<F<G>> = (0..n2).map(|_| draw_g(3)).collect();
    let sr2: Vec<F<G>> = (0..n2).map(|_| draw_g(4)).collect();
    let (h_i2, h_o2, h_s2) = if n2 > 0 {
        (
            msm::<G>(&gs[n1..n], &asg.l[n1..n]) + msm::<G>(&hs[n1..n], &asg.r[n1..n]) + bb * i2,
            msm::<G>(&gs[n1..n], &asg.o[n1..n]) + bb * o2,
            msm::<G>(&gs[n1..n], &sl2) + msm::<G>(&hs[n1..n], &sr2) + bb * s2,
        )
    } else {
        (G::Group::zero(), G::Group::zero(), G::Group::zero())
    };
    let a_i2 = dev_point::<G>(&dev, Slot::Pt(3), h_i2, env, &g0);
    let a_o2 = dev_point::<G>(&dev, Slot::Pt(4), h_o2, env, &g0);
    let s_2 = dev_point::<G>(&dev, Slot::Pt(5), h_s2, env, &g0);
    cs.t.append_message(labels.l("A_I2"), &labels.enc(&a_i2));
    cs.t.append_message(labels.l("A_O2"), &labels.enc(&a_o2));
    cs.t.append_message(labels.l("S2"), &labels.enc(&s_2));
    let y: F<G> = challenge(&mut cs.t, labels.l("y"));
    let z: F<G> = challenge(&mut cs.t, labels.l("z"));
    let (wl, wr, wo, wv, _wc) = ctx.refcs.flatten(z);
    let yinv = y.inverse().ok_or("y = 0")?;
    let mut ypow = vec![F::<G>::one(); padded + 1];
    let mut yipow = vec![F::<G>::one(); padded + 1];
    for i in 1..=padded {
        ypow[i] = ypow[i - 1] * y;
        yipow[i] = yipow[i - 1] * yinv;
    }
    let sl: Vec<F<G>> = sl1.iter().chain(sl2.iter()).cloned().collect();
    let sr: Vec<F<G>> = sr1.iter().chain(sr2.iter()).cloned().collect();
    let l1: Vec<F<G>> = (0..n).map(|i| asg.l[i] + yipow[i] * wr[i]).collect();
    let l2: Vec<F<G>> = (0..n).map(|i| asg.o[i]).collect();
    let l3 = sl.clone();
    let r0: Vec<F<G>> = (0..n).map(|i| wo[i] - ypow[i]).collect();
    let r1: Vec<F<G>> = (0..n).map(|i| ypow[i] * asg.r[i] + wl[i]).collect();
    let r3: Vec<F<G>> = (0..n).map(|i| ypow[i] * sr[i]).collect();
    let t1 = ip(&l1, &r0);
    let t2 = ip(&l1, &r1) + ip(&l2, &r0);
    let t3 = ip(&l2, &r1) + ip(&l3, &r0);
    let t4 = ip(&l1, &r3) + ip(&l3, &r1);
    let t5 = ip(&l2, &r3);
    let t6 = ip(&l3, &r3);
    let taus: Vec<F<G>> = (0..5).map(|i| draw_g(5 + i)).collect();
    let ts = [t1, t3, t4, t5, t6];
    let mut tpts = vec![];
    for i in 0..5 {
        let p = dev_point::<G>(&dev, Slot::Pt(6 + i), bpt * ts[i] + bb * taus[i], env, &g0);
        tpts.push(p);
    }
    for (i, name) in ["T_1", "T_3", "T_4", "T_5", "T_6"].iter().enumerate() {
        cs.t.append_message(labels.l(name), &labels.enc(&tpts[i]));
    }
    let u: F<G> = challenge(&mut cs.t, labels.l("u"));
    let x: F<G> = challenge(&mut cs.t, labels.l("x"));
    let x2 = x * x;
    let x3 = x2 * x;
    let t2b: F<G> = wv.iter().zip(ctx.refcs.blind.iter()).map(|(c, b)| *c * b).sum();
    let t_x = x * t1 + x2 * t2 + x3 * t3 + x3 * x * t4 + x3 * x2 * t5 + x3 * x3 * t6;
    let t_xb = x * taus[0] + x2 * t2b + x3 * taus[1] + x3 * x * taus[2] + x3 * x2 * taus[3] + x3 * x3 * taus[4];
    let e_b = x * ((i1 + u * i2) + x * ((o1 + u * o2) + x * (s1 + u * s2)));
    let t_x = dev_scalar(&dev, Slot::Sc(0), t_x);
    let t_xb = dev_scalar(&dev, Slot::Sc(1), t_xb);
    let e_b = dev_scalar(&dev, Slot::Sc(2), e_b);
    cs.t.append_message(labels.l("t_x"), &sc_bytes(&t_x));
    cs.t.append_message(labels.l("t_x_blinding"), &sc_bytes(&t_xb));
    cs.t.append_message(labels.l("e_blinding"), &sc_bytes(&e_b));
    let w: F<G> = challenge(&mut cs.t, labels.l("w"));
    let q = bpt * w;
    // ---- vectors for the inner-product argument
    let mut a: Vec<F<G>> = (0..padded).map(|i| if i < n { l1[i] * x + l2[i] * x2 + l3[i] * x3 } else { F::<G>::zero() }).collect();
    let mut b: Vec<F<G>> = (0..padded).map(|i| if i < n { r0[i] + r1[i] * x + r3[i] * x3 } else { -ypow[i] }).collect();
    let phi = |i: usize| if i < n1 { F::<G>::one() } else { u };
    let mut gv: Vec<G::Group> = (0..padded).map(|i| gs[i].into_group() * phi(i)).collect();
    let mut hv: Vec<G::Group> = (0..padded).map(|i| hs[i].into_group() * (phi(i) * yipow[i])).collect();
    cs.t.append_message(labels.l("dom-sep:ipp"), &labels.payload["dom-sep:ipp"]);
    cs.t.append_message(labels.l("ipp n"), &labels.int(padded as u64));
    let (mut lv, mut rv) = (vec![], vec![]);
    let mut len = padded;
    let mut round = 0;
    while len > 1 {
        len /= 2;
        let (al, ar) = a.split_at(len);
        let (bl, br) = b.split_at(len);
        let (gl, gr) = gv.split_at(len);
        let (hl, hr) = hv.split_at(len);
        let cl = ip(al, br);
        let cr = ip(ar, bl);
        let mut lp = q * cl;
        let mut rp = q * cr;
        for i in 0..len {
            lp += gr[i] * al[i] + hl[i] * br[i];
            rp += gl[i] * ar[i] + hr[i] * bl[i];
        }
        let lpt = dev_point::<G>(&dev, Slot::L(round), lp, env, &g0);
        let rpt = dev_point::<G>(&dev, Slot::R(round), rp, env, &g0);
        cs.t.append_message(labels.l("L"), &labels.enc(&lpt));
        cs.t.append_message(labels.l("R"), &labels.enc(&rpt));
        lv.push(lpt);
        rv.push(rpt);
        let uj: F<G> = challenge(&mut cs.t, labels.l("u[j]"));
        let ui = uj.inverse().ok_or("u_j = 0")?;
        let na: Vec<F<G>> = (0..len).map(|i| al[i] * uj + ui * ar[i]).collect();
        let nb: Vec<F<G>> = (0..len).map(|i| bl[i] * ui + uj * br[i]).collect();
        let ng: Vec<G::Group> = (0..len).map(|i| gl[i] * ui + gr[i] * uj).collect();
        let nh: Vec<G::Group> = (0..len).map(|i| hl[i] * uj + hr[i] * ui).collect();
        a = na;
        b = nb;
        gv = ng;
        hv = nh;
        round += 1;
    }
    let fa = dev_scalar(&dev, Slot::A, a[0]);
    let fb = dev_scalar(&dev, Slot::B, b[0]);
    let parts = Parts { pts: vec![a_i1, a_o1, s_1, a_i2, a_o2, s_2, tpts[0], tpts[1], tpts[2], tpts[3], tpts[4]], sc: vec![t_x, t_xb, e_b], l: lv, r: rv, a: fa, b: fb };
    Ok(RefProved { parts, comms, ctx })
}
