//! Access to the thread-local event log of the recording Merlin (vendor/merlin-rec).
pub use merlin::rec::Event;
use ark_ff::PrimeField;
use rand_chacha::ChaChaRng;
use rand_core::SeedableRng;

/// Run `f` with recording on; returns its result and the recorded events. Recording is per
/// thread; `f` must not hop threads (nothing in the subject does).
pub fn record<T>(f: impl FnOnce() -> T) -> (T, Vec<Event>) {
    merlin::rec::start();
    let r = f();
    let ev = merlin::rec::stop();
    (r, ev)
}

/// Like `record`, catching an unwind of `f` (recording is always switched off again).
pub fn record_guarded<T>(f: impl FnOnce() -> T) -> (Result<T, String>, Vec<Event>) {
    merlin::rec::start();
    let r = crate::evidence::guarded(f);
    let ev = merlin::rec::stop();
    (r, ev)
}

/// The scalar a 32-byte challenge output denotes (the crate seeds a ChaCha RNG with it and
/// samples a field element).
pub fn scalar_from_challenge<F: PrimeField>(out: &[u8]) -> F {
    let mut seed = [0u8; 32];
    seed.copy_from_slice(&out[..32]);
    let mut rng = ChaChaRng::from_seed(seed);
    F::rand(&mut rng)
}

/// Re-read the scalars an RNG produced: replay its recorded output bytes into `F::rand`.
pub struct ReplayRng {
    pub bytes: Vec<u8>,
    pub pos: usize,
    pub exhausted: bool,
}
impl rand_core::RngCore for ReplayRng {
    fn next_u32(&mut self) -> u32 {
        rand_core::impls::next_u32_via_fill(self)
    }
    fn next_u64(&mut self) -> u64 {
        rand_core::impls::next_u64_via_fill(self)
    }
    fn fill_bytes(&mut self, dest: &mut [u8]) {
        for d in dest.iter_mut() {
            if self.pos < self.bytes.len() {
                *d = self.bytes[self.pos];
                self.pos += 1;
            } else {
                self.exhausted = true;
                *d = 0;
            }
        }
    }
    fn try_fill_bytes(&mut self, dest: &mut [u8]) -> Result<(), rand_core::Error> {
        self.fill_bytes(dest);
        Ok(())
    }
}

/// All scalars drawn through `F::rand` from an RNG whose `fill_bytes` outputs were recorded.
pub fn draws_from_fills<F: PrimeField>(fills: &[Vec<u8>]) -> Vec<F> {
    let bytes: Vec<u8> = fills.iter().flatten().cloned().collect();
    let mut rng = ReplayRng { bytes, pos: 0, exhausted: false };
    let mut out = vec![];
    loop {
        if rng.pos >= rng.bytes.len() {
            break;
        }
        let f = F::rand(&mut rng);
        if rng.exhausted {
            break;
        }
        out.push(f);
    }
    out
}

pub fn label_str(l: &[u8]) -> String {
    String::from_utf8_lossy(l).to_string()
}
