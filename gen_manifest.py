#!/usr/bin/env python3
"""Regenerates MANIFEST.json from the table below (keeps it schema-valid at all times)."""
import json, subprocess, sys
CHECKS = {
 # id: (level, technique, text, note, design_ref)
 "C01": ("exploration", "bounded-exhaustive enumeration of constraint-system call sequences (program space) on the real prover/verifier",
         "Every call sequence up to the depth bound over a 12-letter alphabet per phase (incl. the empty linear combination and bare wire constraints), hand-picked degenerate programs, every size-family member with each capacity pair, circuits of 130-257 gates and every value template x VAL^k is proved and verified on the real code; a satisfied system must yield Ok/Ok.",
         "values limited to the VAL alphabet; depth bounded; arkworks and Merlin trusted", "4 C01"),
 "C02": ("exploration", "bounded-exhaustive enumeration of violation sites (witness input, constraint constant, gate wires singly and in multi-wire patterns via hook H1) over the program space, reference-model oracle",
         "For every program of the bounded space and every violation site (each witness input, each constraint constant by fixed deltas and by amounts derived from the constraint's own constant terms, each gate wire and seven multi-wire patterns per gate through hook H1) the real prover is run on the bad assignment and the real verifier must reject whenever the reference constraint system reports a violated constraint or gate.",
         "decides proofs emitted by the real proving code for bad assignments (not arbitrary adversaries); coincidental cancellation with probability ~1/|F| treated as impossible", "4 C02"),
 "C03": ("exploration", "deviation-bounded exhaustive enumeration of proof alterations (post-hoc depth 0-2, challenge-weighted pairs, and single deviations during the run of an independent reference prover), each judged by the real verifier and by an independent un-batched reference verifier under the recorded challenges",
         "For every base proof (honest and honest-from-bad-witness), every post-hoc deviation of the algebraic alphabet (depth 1, depth 2 on the smallest bases, challenge-weighted two-field trades) and every single deviation made DURING a run of an independent reference prover, the real verdict must equal the conjunction of (a) non-identity, (b) the committed evaluation relation and (c) the inner-product relation evaluated with explicit round-by-round folding.",
         "r-weighted batching differs from the separate relations only with probability ~1/|F|; challenges taken from the recorded run", "4 C03"),
 "C04": ("exploration", "deviation-bounded exhaustive enumeration: every single-bit flip and every single algebraic alteration of accepted base proofs, run through the real decoder and verifier",
         "For each accepted base proof (k = 0..3 rounds, one- and two-phase) every bit flip of the encoding, every single-field algebraic deviation, every same-type copy/swap, every round edit and trailing bytes must be rejected at decode or at verify, or decode to the identical proof object.",
         "bases and alphabets as listed in the evidence; 'identical object' = canonical re-encoding equals the original", "4 C04"),
 "C05": ("exploration", "deviation-bounded exhaustive enumeration: every single verifier-side statement/context deviation for every honest base of the program space",
         "For every honest (program, proof) of the bounded program space, every single verifier-side deviation (commitments incl. torsion-shifted and duplicated ones, constraint constants/coefficients, label, app data changed/removed/inserted at every position, Pedersen bases) is run on the real verifier; it must reject unless the reference model marks the deviation as one of the statement's own don't-cares.",
         "one deviation at a time; bases as listed in the evidence", "4 C05"),
 "C06": ("model_checking", "monitor automaton of the protocol's transcript order run over the recorded Merlin event trace of every program of the bounded program space (prover and verifier), plus role-synchrony and fork-discipline checks",
         "Every program of the bounded space is run honestly under the recording Merlin; a monitor automaton with payloads computed from the program, commitments and decoded proof consumes each role's main-transcript events; the two roles' event sequences must be identical; forks only for the prover RNG and the verifier's final batching weight (taken after the last protocol operation); returned transcripts give the same follow-up challenge; on proofs with one element replaced the verifier's transcript must carry the element it received.",
         "observation at the Merlin API through the additive recording patch; label strings are pinned by C18", "4 C06"),
 "C07": ("exploration", "exhaustive enumeration of all ordered batches up to a length bound over an instance pool with correlated forgeries, oracle = conjunction of individual real verifications",
         "Every ordered batch (every length, position, size mix; pool includes gate-free invalid members and +d/-d forgeries) is run through the real batch_verify and compared with the conjunction of the members' individual verdicts.",
         "batch RNG is a seeded ChaCha; pool and length bound as listed in the evidence", "4 C07"),
 "C08": ("fault_enumeration", "exhaustive enumeration of malformed-input families (shape grid, identity/zero slots, all short strings, all prefixes, per-byte substitutions, length prefixes) executed in isolated child processes with a counting allocator",
         "Every member of the listed hostile-input families is decoded and, if it decodes, verified singly and in three batch arrangements; any unwind, process death or allocation above 8*len+64KiB during decoding is a violation.",
         "inputs outside the listed families are not covered; memory observed via a counting global allocator", "4 C08"),
 "C09": ("exploration", "bounded-exhaustive program enumeration with an algebraic opening oracle over the recorded prover RNG output (order-agnostic attribution search)",
         "For every program the prover's RNG output is recovered from the recording; every commitment is opened as known part + one unused draw * B_blinding, masking vectors are recovered from the final inner-product scalars, published blinding scalars recomputed, every draw non-zero / distinct / used exactly once; RNG keying (blinding factors, >= 32 external bytes) observed on the builder; same randomness reproduces the proof, different randomness shares no non-fixed component.",
         "decides blinding structure, not indistinguishability; full opening only for padded size <= 4", "4 C09"),
 "C10": ("exploration", "exhaustive enumeration of vectors over a small alphabet for n <= 4 and structured vectors up to n = 128, each with every single deviation, against an explicit-folding reference using recorded challenges",
         "Real create + real verify for every case (through the guarded re-export), every verdict compared with an explicit round-by-round folding of the generators under the challenges recorded from the real run; round count, designed identity rejection, must-reject deviations and every wrong claimed length asserted.",
         "scalar table {0,1,rho,dense}; challenge scalar derivation replicated from the recorded 32-byte outputs", "4 C10"),
 "C11": ("exploration", "exhaustive enumeration of prefixes and invalid slot contents for proofs of every circuit size in a bounded family",
         "For every proof of the size family and small program space: deterministic encoding, round trip, verdict preserved, exact length law, every strict prefix rejected, every scalar slot with a non-canonical value rejected, every point slot with an off-curve / non-canonical / small-order / out-of-subgroup point rejected, also in the unpaired tail of encodings whose two point lists have different lengths.",
         "proof family as listed in the evidence", "4 C11"),
 "C12": ("model_checking", "explicit-state enumeration (stateright BFS) of capacity histories, each replayed on a real BulletproofGens and compared with direct construction; content checks on every generator",
         "Every history of new/increase_capacity/serialize-deserialize up to the depth bound x parties 1..3 x 3 curves is executed on the implementation; every (n,m) view is compared with a directly constructed object; all generators are checked for order r, non-identity, pairwise distinctness and against SHA3 digests recorded from the reference revision, including an instance with 300 (quick) / 65 540 (thorough) parties and capacity 66 000 (thorough).",
         "views beyond capacity/parties are out of contract; SHA3 and point encoding trusted for digests", "4 C12"),
 "C13": ("exploration", "complete grid enumeration over the value alphabet against a harness-side double-and-add reference",
         "Full (v,r) grid x 3 base pairs x 3 curves; all pairs of pairs for additivity; scalings; Prover::commit on every pair.",
         "group addition/doubling of arkworks trusted; values outside VAL not covered", "4 C13"),
 "C14": ("other", "finite obligations on the compiled constants plus bounded exhaustive enumerations (structured field set for mul_by_a, scalar-law alphabet pairs, all multiples of r up to the Hasse bound, all trial divisors and Miller-Rabin bases below stated bounds)",
         "Constants cross-checked between source literals and compiled values; generator on curve; r*G = O; the only multiple of r in the Hasse interval is r (so the order is exactly r); no compositeness witness for q, r below the bounds; mul_by_a compared with COEFF_A*x on a set structured in value space and in Montgomery-representation space; scalar laws on all alphabet pairs.",
         "mul_by_a is not compared on the whole field; primality is absence of a witness below the bound, not an unconditional proof; Hasse's theorem", "4 C14"),
 "C15": ("exploration", "exhaustive enumeration of expression trees up to depth 2 over all operator impls, oracle = recursive denotation; accept-at-value and reject-off-value probes through real prove/verify",
         "Every expression tree of the bounded grammar is built with the operator impl its operand types select; constrain(e - den(e)) must prove and verify, constrain(e - (den(e)+delta)) must be rejected.",
         "coefficients limited to {0,-1,2,rho}; fixed 2-gate 2-commitment circuit", "4 C15"),
 "C16": ("model_checking", "explicit-state model checking (stateright BFS) of the abstract allocator, with every model state replayed call-by-call on the real Prover and Verifier",
         "stateright enumerates every call history up to the depth bounds (unmerged tree, and a merged run keyed by the abstract allocator state); each state is re-executed on a real Prover and Verifier (closures inside a real prove/verify) and every returned handle and gate count is compared between the roles and with the abstract allocator; closing probes decide right=out=0 for a gate left open at a phase end.",
         "the abstract allocator is the specification; stateright BFS/visited set trusted", "4 C16"),
 "C18": ("exploration", "finite recorded fixture set from the reference revision verified on the current tree, plus program-space enumeration of fresh transcript schedules against the recorded label table",
         "Every recorded fixture (3 curves x 12 circuits, plus 3 x 3 proofs recorded by an unpatched-merlin build of the pinned tree) must be accepted for its statement, rejected for each recorded wrong statement, reproduce the recorded transcript schedule and challenge outputs and re-encode to the recorded bytes; generator and Pedersen-base digests must reproduce; labels and domain separators of fresh runs of every program of the bounded space must equal the recorded table.",
         "fixtures recorded from pinned tree + hooks + the two fix commits (which do not alter accepted proofs)", "4 C18"),
 "C17": ("exploration", "complete configuration-grid enumeration (gates1 x gates2 x prover capacity x verifier capacity) on the real prove/verify/batch_verify",
         "Every grid point is executed; the insufficient-generators error must appear exactly below the padded threshold, nothing may panic, proof bytes and verdict must not depend on surplus capacity.",
         "grid bounds as stated in the evidence", "4 C17"),
}
NOT_APPLICABLE = {}
def main():
    hooks = subprocess.run(["git","-C","/repo","log","--format=%H %s"],capture_output=True,text=True).stdout.splitlines()
    hook_commits=[l.split()[0] for l in hooks if "verif-hooks" in l]
    all_ids=[json.loads(l)["id"] for l in open("/verif/properties.jsonl")]
    checks=[]
    for pid,(level,tech,text,note,ref) in CHECKS.items():
        checks.append({
          "property_id": pid,
          "quick_cmd": f"./check {pid} --tier quick",
          "thorough_cmd": f"./check {pid} --tier thorough",
          "evidence_file": f"/verif/evidence/{pid}.json",
          "replay_cmd_template": f"./check {pid} --replay {{path}}",
          "engine": "bpverif",
          "level_claimed": {"category": level, "text": text, "design_ref": "DESIGN.md section "+ref},
          "level_note": note,
          "technique": tech,
        })
    na=[{"property_id":p,"reason":NOT_APPLICABLE.get(p,"check not built yet in this round (planned in DESIGN.md); not claimed until it runs")} for p in all_ids if p not in CHECKS]
    m={
      "version":1,
      "setup_cmd":"cd /verif/harness && CARGO_NET_OFFLINE=true cargo build --release --offline",
      "hooks":{"guard":"cargo feature verif-hooks (off by default)","enable":"the harness depends on ark-bulletproofs = { path = \"/repo\", features = [\"verif-hooks\"] }","baseline_off_cmd":"cd /repo && cargo test --workspace --no-fail-fast --offline","source_commits":hook_commits,"add_only":True},
      "engines":[{"name":"bpverif","path":"/verif/harness","serves_properties":list(CHECKS.keys()),"kind_free_text":"Rust harness: own bounded-exhaustive explorers (program space, deviation space, configuration grids) plus stateright explicit-state models; every case is executed on the real crate built from /repo's working tree"}],
      "checks":checks,
      "not_applicable":na,
      "notes":"All checks rebuild the harness (and with it /repo, hooks on) before running. Exit 0 = held, 1 = VIOLATION line(s), 2 = machinery failure.",
    }
    json.dump(m,open("/verif/MANIFEST.json","w"),indent=1)
if __name__=="__main__": main()
