#!/usr/bin/env python3
"""Regenerates MANIFEST.json from the table below (keeps it schema-valid at all times)."""
import json, subprocess, sys
CHECKS = {
 # id: (level, technique, text, note, design_ref)
 "C01": ("exploration", "bounded-exhaustive enumeration of constraint-system call sequences (program space) on the real prover/verifier",
         "Every call sequence up to the depth bound, every size-family member with each capacity pair and every value template x VAL^k is proved and verified on the real code; a satisfied system must yield Ok/Ok.",
         "values limited to the VAL alphabet; depth bounded; arkworks and Merlin trusted", "4 C01"),
}
NOT_APPLICABLE = {}
def main():
    hooks = subprocess.run(["git","-C","/repo","log","--format=%H %s"],capture_output=True,text=True).stdout.splitlines()
    hook_commits=[l.split()[0] for l in hooks if "verif-hooks" in l]
    all_ids=[json.loads(l)["id"] for l in open("/verif/properties.jsonl")]
    checks=[]
    for pid,(level,tech,text,note,ref) in CHECKS.items():
        checks.append({
          "property_id": pid,
          "quick_cmd": f"./check {pid} --tier quick",
          "thorough_cmd": f"./check {pid} --tier thorough",
          "evidence_file": f"/verif/evidence/{pid}.json",
          "replay_cmd_template": f"./check {pid} --replay {{path}}",
          "engine": "bpverif",
          "level_claimed": {"category": level, "text": text, "design_ref": "DESIGN.md section "+ref},
          "level_note": note,
          "technique": tech,
        })
    na=[{"property_id":p,"reason":NOT_APPLICABLE.get(p,"check not built yet in this round (planned in DESIGN.md); not claimed until it runs")} for p in all_ids if p not in CHECKS]
    m={
      "version":1,
      "setup_cmd":"cd /verif/harness && CARGO_NET_OFFLINE=true cargo build --release --offline",
      "hooks":{"guard":"cargo feature verif-hooks (off by default)","enable":"the harness depends on ark-bulletproofs = { path = \"/repo\", features = [\"verif-hooks\"] }","baseline_off_cmd":"cd /repo && cargo test --workspace --no-fail-fast --offline","source_commits":hook_commits,"add_only":True},
      "engines":[{"name":"bpverif","path":"/verif/harness","serves_properties":list(CHECKS.keys()),"kind_free_text":"Rust harness: own bounded-exhaustive explorers (program space, deviation space, configuration grids) plus stateright explicit-state models; every case is executed on the real crate built from /repo's working tree"}],
      "checks":checks,
      "not_applicable":na,
      "notes":"All checks rebuild the harness (and with it /repo, hooks on) before running. Exit 0 = held, 1 = VIOLATION line(s), 2 = machinery failure.",
    }
    json.dump(m,open("/verif/MANIFEST.json","w"),indent=1)
if __name__=="__main__": main()
