#!/usr/bin/env python3
"""Reads a matrix.tsv (tools/matrix.sh) and writes seeded/<id>/meta.json `detected_by` (checks that exit 1)
plus `machinery_exit` (checks that exit 2/101), then copies the matrix to seeded/matrix.tsv."""
import json, os, sys, collections, shutil
src = sys.argv[1] if len(sys.argv) > 1 else "/tmp/mx/matrix.tsv"
det = collections.defaultdict(list); mach = collections.defaultdict(list)
last = {}
for line in open(src):
    f = line.rstrip("\n").split("\t")
    if len(f) < 3: continue
    last[(f[0], f[1])] = f[2]          # a later row for the same (change, check) is a re-run and wins
for (mid, chk), rc in last.items():
    if rc == "1": det[mid].append(chk)
    elif rc not in ("0",): mach[mid].append(f"{chk}:{rc}")
for mid in sorted(set(det) | set(mach)):
    p = f"/verif/seeded/{mid}/meta.json"
    if not os.path.exists(p): continue
    m = json.load(open(p))
    m["detected_by"] = sorted(det.get(mid, []))
    if mach.get(mid): m["machinery_exit"] = mach[mid]
    m["detected_by_source"] = "tools/matrix.sh (quick tier of every check on scratch copies)"
    json.dump(m, open(p, "w"), indent=1)
if os.path.abspath(src) != "/verif/seeded/matrix.tsv": shutil.copy(src, "/verif/seeded/matrix.tsv")
print("updated", len(det), "entries")
