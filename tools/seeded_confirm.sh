#!/bin/bash
# usage: seeded_confirm.sh <ID> <outdir> [cargo test extra args for the demo]
# Confirms, in the scratch worktree /tmp/mut_<ID>, that the patch (1) compiles and passes the
# repository suite, (2) makes the demo fail, (3) the demo passes without it.
ID=$1; OUT=$2; shift 2
W=${WT:-/tmp/mut_$ID}
export CARGO_TARGET_DIR=$W/target CARGO_NET_OFFLINE=true
cd $W || exit 2
git checkout -q -- src Cargo.toml
cp $OUT/demo_$ID.rs tests/demo_$ID.rs
git apply $OUT/patch.diff || { echo "PATCH DOES NOT APPLY"; exit 2; }
mv tests/demo_$ID.rs /tmp/demo_$ID.rs.tmp
echo "== suite with change"
cargo test --workspace --no-fail-fast --offline 2>&1 | grep -E "^test result" | awk '{p+=$4; f+=$6} END {print "passed="p" failed="f}'
mv /tmp/demo_$ID.rs.tmp tests/demo_$ID.rs
echo "== demo with change"
cargo test --offline --test demo_$ID "$@" 2>&1 | grep -E "^test result|error\[" | head -3
git checkout -q -- src Cargo.toml
echo "== demo without change"
cargo test --offline --test demo_$ID "$@" 2>&1 | grep -E "^test result|error\[" | head -3
