#!/bin/bash
# Cross matrix: every seeded change x every quick check, on scratch copies (never /repo, never /verif).
# usage: [MX=/tmp/mx] [IDS="C01 C02 ..."] tools/matrix.sh [seeded ids...]   (default: all changes, all checks)
# The scratch repo is a git worktree of /repo at $MX/repo (created if missing); remove it afterwards with
#   git -C /repo worktree remove --force $MX/repo
set -u
MX=${MX:-/tmp/mx}
mkdir -p $MX
[ -d $MX/repo ] || git -C /repo worktree add --detach $MX/repo HEAD >/dev/null 2>&1
rm -rf $MX/verif; mkdir -p $MX/verif
rsync -a --exclude target --exclude replays --exclude evidence --exclude .git /verif/ $MX/verif/
sed -i "s#path = \"/repo\"#path = \"$MX/repo\"#" $MX/verif/harness/Cargo.toml
sed -i "s#/repo/src/curve/zorro#$MX/repo/src/curve/zorro#" $MX/verif/harness/src/props/c14.rs
IDS=${IDS:-"C01 C02 C03 C04 C05 C06 C07 C08 C09 C10 C11 C12 C13 C14 C15 C16 C17 C18"}
SEEDS="${@:-$(ls /verif/seeded | grep -v -e json -e tsv)}"
OUT=$MX/matrix.tsv; : > $OUT
for s in $SEEDS; do
  git -C $MX/repo checkout -q -- . ; git -C $MX/repo apply /verif/seeded/$s/patch.diff || { echo "$s PATCH-FAIL" >> $OUT; continue; }
  for id in $IDS; do
    $MX/verif/check $id --tier quick > $MX/last.log 2>&1; rc=$?
    echo -e "$s\t$id\t$rc\t$(grep -c '^VIOLATION' $MX/last.log)\t$(grep -m1 'expected:' $MX/last.log | cut -c1-200)" >> $OUT
  done
done
git -C $MX/repo checkout -q -- .
echo DONE >> $OUT
