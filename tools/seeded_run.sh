#!/bin/bash
# usage: seeded_run.sh <patch> <ID...>   applies the patch to /repo, runs the quick checks named, restores /repo
P=$(readlink -f $1); shift
SAVE=$(mktemp -d); cp -r /verif/evidence $SAVE/ 2>/dev/null
cd /repo && git apply $P || { echo "PATCH DOES NOT APPLY to /repo"; exit 2; }
cd /verif
for id in "$@"; do
  ./check $id --tier quick 2>&1 | grep -E "^C[0-9]+ tier|VIOLATION|machinery" | head -3 | cut -c1-260
done
git -C /repo checkout -- .
# evidence written while /repo was modified is not evidence about the unchanged tree: restore
rm -rf /verif/evidence && cp -r $SAVE/evidence /verif/evidence && rm -rf $SAVE
git -C /repo status --short | head -3
