// Hand-written fixture circuits shared (by `include!`) between the unpatched recording probe
// (fixtures/probe, built against the pinned tree with the registry's merlin) and the harness.
// Only the public constraint-system API is used.

pub fn wire_values<F: ark_ff::PrimeField>() -> (Vec<F>, Vec<F>) {
    // committed values and their blinding factors
    (
        vec![F::from(3u64), F::from(4u64), -F::from(5u64)],
        vec![F::from(1001u64), F::from(1002u64), -F::from(1003u64)],
    )
}

/// circuit 0: one phase, one gate, app data
pub fn wire_circuit0<F: ark_ff::PrimeField, CS: ConstraintSystem<F>>(cs: &mut CS, v: &[Variable<F>], w: Option<&[F]>) -> Result<(), R1CSError> {
    cs.transcript().append_message(b"wire-app", b"circuit 0");
    let (l, r, o) = cs.allocate_multiplier(w.map(|w| (w[0], w[1])))?;
    cs.constrain(l - v[0]);
    cs.constrain(r - v[1]);
    cs.constrain(o - F::from(12u64));
    cs.constrain(v[2] + F::from(5u64));
    Ok(())
}

/// circuit 1: two phases, three gates (padded to four), challenge-dependent coefficients
pub fn wire_circuit1<F: ark_ff::PrimeField, CS: RandomizableConstraintSystem<F>>(cs: &mut CS, v: &[Variable<F>], w: Option<&[F]>) -> Result<(), R1CSError> {
    let (_, _, o) = cs.multiply(v[0] + v[1], v[2] * F::from(2u64));
    cs.constrain(o + F::from(70u64));
    let a = v[0];
    let w0 = w.map(|w| w[0]);
    cs.specify_randomized_constraints(move |cs| {
        let z = cs.challenge_scalar(b"wire-z");
        let (_, _, o) = cs.multiply(a * z, LinearCombination::from(z));
        cs.constrain(o - a * (z * z));
        let x = cs.allocate(w0.map(|w0| w0 * z))?;
        cs.constrain(x - a * z);
        cs.transcript().append_message(b"wire-app", b"inside");
        Ok(())
    })
}

/// circuit 2: single allocations with a gate left open, no randomized phase
pub fn wire_circuit2<F: ark_ff::PrimeField, CS: ConstraintSystem<F>>(cs: &mut CS, v: &[Variable<F>], w: Option<&[F]>) -> Result<(), R1CSError> {
    let a = cs.allocate(w.map(|w| w[0]))?;
    let b = cs.allocate(w.map(|w| w[1]))?;
    let c = cs.allocate(w.map(|w| w[2]))?;
    cs.constrain(a - v[0]);
    cs.constrain(b - v[1]);
    cs.constrain(c - v[2]);
    cs.constrain(LinearCombination::from(Variable::MultiplierOutput(0)) - F::from(12u64));
    cs.constrain(LinearCombination::from(Variable::MultiplierRight(1)));
    cs.constrain(LinearCombination::from(Variable::MultiplierOutput(1)));
    Ok(())
}
