//! Unpatched recording probe: built against the pinned tree with the registry's merlin.
use ark_bulletproofs::r1cs::*;
use ark_bulletproofs::{BulletproofGens, PedersenGens};
use ark_ec::AffineRepr;
use ark_serialize::CanonicalSerialize;
use merlin::Transcript;
use rand_chacha::ChaChaRng;
use rand_core::SeedableRng;

include!("../circuits.rs");

fn hexs(b: &[u8]) -> String {
    b.iter().map(|x| format!("{:02x}", x)).collect()
}

fn run<G: AffineRepr>(name: &str) -> String {
    let pc = PedersenGens::<G>::default();
    let bp = BulletproofGens::<G>::new(8, 1);
    let (vals, blinds) = wire_values::<G::ScalarField>();
    let mut items = vec![];
    for circuit in 0..3 {
        let mut t = Transcript::new(b"wire-probe");
        let mut prover = Prover::new(&pc, &mut t);
        let mut comms = vec![];
        let mut vars = vec![];
        for (v, b) in vals.iter().zip(blinds.iter()) {
            let (c, var) = prover.commit(*v, *b);
            comms.push(c);
            vars.push(var);
        }
        match circuit {
            0 => wire_circuit0(&mut prover, &vars, Some(&vals)).unwrap(),
            1 => wire_circuit1(&mut prover, &vars, Some(&vals)).unwrap(),
            _ => wire_circuit2(&mut prover, &vars, Some(&vals)).unwrap(),
        }
        let mut rng = ChaChaRng::from_seed([7u8; 32]);
        let proof = prover.prove(&mut rng, &bp).unwrap();
        let cs: Vec<String> = comms
            .iter()
            .map(|c| {
                let mut b = vec![];
                c.serialize_compressed(&mut b).unwrap();
                format!("\"{}\"", hexs(&b))
            })
            .collect();
        items.push(format!("{{\"circuit\": {}, \"commitments\": [{}], \"proof\": \"{}\"}}", circuit, cs.join(", "), hexs(&proof.to_bytes().unwrap())));
    }
    format!("\"{}\": [{}]", name, items.join(",\n  "))
}

/// Serialized `BulletproofGens` objects (compressed), non-square capacities included.
pub const GENS_SHAPES: [(usize, usize); 7] = [(0, 1), (1, 1), (1, 2), (2, 1), (3, 2), (8, 1), (4, 3)];

fn gens_blobs<G: AffineRepr>(name: &str) -> String {
    let mut items = vec![];
    for (g, p) in GENS_SHAPES.iter() {
        let bp = BulletproofGens::<G>::new(*g, *p);
        let mut b = vec![];
        bp.serialize_compressed(&mut b).unwrap();
        items.push(format!("\"{}x{}\": \"{}\"", g, p, hexs(&b)));
    }
    // one object reached through a history of increases
    let mut bp = BulletproofGens::<G>::new(1, 2);
    bp.increase_capacity(3);
    let mut b = vec![];
    bp.serialize_compressed(&mut b).unwrap();
    items.push(format!("\"1x2+inc3\": \"{}\"", hexs(&b)));
    format!("\"{}\": {{{}}}", name, items.join(",\n  "))
}

fn main() {
    if std::env::args().nth(1).as_deref() == Some("gens") {
        let a = gens_blobs::<ark_secq256k1::Affine>("secq256k1");
        let b = gens_blobs::<ark_bulletproofs::curve::zorro::G1Affine>("zorro");
        let c = gens_blobs::<ark_curve25519::EdwardsAffine>("curve25519");
        println!("{{\n\"_note\": \"serialized BulletproofGens / PedersenGens recorded by fixtures/probe (mode gens) built against the pinned tree b4846a6\",\n{},\n{},\n{}\n}}", a, b, c);
        return;
    }
    let a = run::<ark_secq256k1::Affine>("secq256k1");
    let b = run::<ark_bulletproofs::curve::zorro::G1Affine>("zorro");
    let c = run::<ark_curve25519::EdwardsAffine>("curve25519");
    println!("{{\n\"_note\": \"recorded by fixtures/probe built against the pinned tree b4846a6 with the unpatched registry merlin\",\n{},\n{},\n{}\n}}", a, b, c);
}
