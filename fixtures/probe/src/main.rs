//! Unpatched recording probe: built against the pinned tree with the registry's merlin.
use ark_bulletproofs::r1cs::*;
use ark_bulletproofs::{BulletproofGens, PedersenGens};
use ark_ec::AffineRepr;
use ark_serialize::CanonicalSerialize;
use merlin::Transcript;
use rand_chacha::ChaChaRng;
use rand_core::SeedableRng;

include!("../circuits.rs");

fn hexs(b: &[u8]) -> String {
    b.iter().map(|x| format!("{:02x}", x)).collect()
}

fn run<G: AffineRepr>(name: &str) -> String {
    let pc = PedersenGens::<G>::default();
    let bp = BulletproofGens::<G>::new(8, 1);
    let (vals, blinds) = wire_values::<G::ScalarField>();
    let mut items = vec![];
    for circuit in 0..3 {
        let mut t = Transcript::new(b"wire-probe");
        let mut prover = Prover::new(&pc, &mut t);
        let mut comms = vec![];
        let mut vars = vec![];
        for (v, b) in vals.iter().zip(blinds.iter()) {
            let (c, var) = prover.commit(*v, *b);
            comms.push(c);
            vars.push(var);
        }
        match circuit {
            0 => wire_circuit0(&mut prover, &vars, Some(&vals)).unwrap(),
            1 => wire_circuit1(&mut prover, &vars, Some(&vals)).unwrap(),
            _ => wire_circuit2(&mut prover, &vars, Some(&vals)).unwrap(),
        }
        let mut rng = ChaChaRng::from_seed([7u8; 32]);
        let proof = prover.prove(&mut rng, &bp).unwrap();
        let cs: Vec<String> = comms
            .iter()
            .map(|c| {
                let mut b = vec![];
                c.serialize_compressed(&mut b).unwrap();
                format!("\"{}\"", hexs(&b))
            })
            .collect();
        items.push(format!("{{\"circuit\": {}, \"commitments\": [{}], \"proof\": \"{}\"}}", circuit, cs.join(", "), hexs(&proof.to_bytes().unwrap())));
    }
    format!("\"{}\": [{}]", name, items.join(",\n  "))
}

fn main() {
    let a = run::<ark_secq256k1::Affine>("secq256k1");
    let b = run::<ark_bulletproofs::curve::zorro::G1Affine>("zorro");
    let c = run::<ark_curve25519::EdwardsAffine>("curve25519");
    println!("{{\n\"_note\": \"recorded by fixtures/probe built against the pinned tree b4846a6 with the unpatched registry merlin\",\n{},\n{},\n{}\n}}", a, b, c);
}
